// Kani harnesses for src/vlq.rs (child module of `crate::vlq`; sees private items).
// Properties: C11 (VLQ exact inverse / standard), C06 (VLQ-level rejection), C05 (no panic).
use super::*;
use std::mem::forget;

// ---------------------------------------------------------------------------
// Independent reference: base64 digit value by range comparison (not the table).
pub(crate) fn ref_b64(b: u8) -> i32 {
    if b >= b'A' && b <= b'Z' {
        (b - b'A') as i32
    } else if b >= b'a' && b <= b'z' {
        (b - b'a') as i32 + 26
    } else if b >= b'0' && b <= b'9' {
        (b - b'0') as i32 + 52
    } else if b == b'+' {
        62
    } else if b == b'/' {
        63
    } else {
        -1
    }
}

pub(crate) const ST_OK: u8 = 0;
pub(crate) const ST_EMPTY: u8 = 1;
pub(crate) const ST_LEFTOVER: u8 = 2;
pub(crate) const ST_OVERFLOW: u8 = 3;
pub(crate) const ST_FOREIGN: u8 = 4;

pub(crate) const REF_MAX: usize = 16;

pub(crate) struct RefOut {
    pub status: u8,
    pub n: usize,
    pub vals: [i64; REF_MAX],
    /// value i is representable (payload < 2^63, i.e. magnitude < 2^62)
    pub exact: [bool; REF_MAX],
}

/// Reference reader of the base64-VLQ standard, flat loops, constant shifts only:
/// each digit carries 5 payload bits (little-endian across digits), bit 5 is the
/// continuation flag, the lowest payload bit of a value is its sign. A forward
/// pass classifies the text (foreign byte / more than 13 digits in one value /
/// unterminated / empty); a backward pass accumulates each value from its most
/// significant digit down (acc = acc * 32 + digit).
pub(crate) fn ref_parse(bytes: &[u8]) -> RefOut {
    let mut out = RefOut {
        status: ST_OK,
        n: 0,
        vals: [0; REF_MAX],
        exact: [true; REF_MAX],
    };
    let len = bytes.len();
    let mut i = 0;
    while i < len {
        if ref_b64(bytes[i]) < 0 {
            out.status = ST_FOREIGN;
            return out;
        }
        i += 1;
    }
    let mut digits: u32 = 0;
    let mut count: usize = 0;
    i = 0;
    while i < len {
        let d = ref_b64(bytes[i]);
        digits += 1;
        if digits > 13 {
            out.status = ST_OVERFLOW;
            return out;
        }
        if d < 32 {
            count += 1;
            digits = 0;
        }
        i += 1;
    }
    out.n = count;
    if digits != 0 {
        out.status = ST_LEFTOVER;
        return out;
    }
    if count == 0 {
        out.status = ST_EMPTY;
        return out;
    }
    // backward pass: values come out last first
    let mut k = count;
    let mut acc: u128 = 0;
    i = len;
    while i > 0 {
        i -= 1;
        let d = ref_b64(bytes[i]) as u128;
        if d < 32 {
            // top digit of value k-1: start a fresh accumulator
            k -= 1;
            acc = d;
        } else {
            acc = (acc << 5) | (d & 31);
        }
        let first_of_value = i == 0 || ref_b64(bytes[i - 1]) < 32;
        if first_of_value && k < REF_MAX {
            if acc < (1u128 << 63) {
                let m = (acc >> 1) as i64;
                out.vals[k] = if acc & 1 == 1 { -m } else { m };
            } else {
                out.exact[k] = false;
            }
        }
    }
    out
}

fn err_code(r: &Result<()>) -> u8 {
    match r {
        Ok(()) => ST_OK,
        Err(Error::VlqNoValues) => ST_EMPTY,
        Err(Error::VlqLeftover) => ST_LEFTOVER,
        Err(Error::VlqOverflow) => ST_OVERFLOW,
        Err(_) => 9,
    }
}

fn as_str(b: &[u8]) -> &str {
    // callers only pass ASCII or explicitly constructed valid UTF-8
    unsafe { std::str::from_utf8_unchecked(b) }
}

// ---------------------------------------------------------------------------
// C11/table: the decode table is the inverse of the alphabet on all 256 bytes.
#[kani::proof]
#[kani::stub(std::string::String::new, crate::vstubs::string_new)]
#[kani::stub(std::string::String::push, crate::vstubs::string_push)]
#[kani::stub(std::vec::Vec::push, crate::vstubs::vec_push)]
fn c11_table() {
    let b: u8 = kani::any();
    let t = B64[b as usize] as i32;
    let r = ref_b64(b);
    if r >= 0 {
        assert!(t == r, "C11/table-alphabet-index");
        assert!(B64_CHARS[r as usize] == b, "C11/table-alphabet-char");
    } else {
        assert!(t < 0, "C11/table-foreign-negative");
    }
    kani::cover!(r == 63, "slash");
    kani::cover!(r < 0 && b >= 0x80, "high byte");
}

// C11/roundtrip: parse(encode(n)) == [n] for every |n| < 2^62; output is 1..13
// alphabet digits, continuation bit on all but the last, and the reference reads n.
#[kani::proof]
#[kani::stub(std::string::String::new, crate::vstubs::string_new)]
#[kani::stub(std::string::String::push, crate::vstubs::string_push)]
#[kani::stub(std::vec::Vec::push, crate::vstubs::vec_push)]
#[kani::unwind(15)]
fn c11_roundtrip_1() {
    let n: i64 = kani::any();
    kani::assume(n > -(1i64 << 62) && n < (1i64 << 62));
    let mut s = String::new();
    encode_vlq(&mut s, n);
    let len = s.len();
    assert!(len >= 1 && len <= 13, "C11/encode-length");
    let mut buf = [0u8; 13];
    let mut i = 0;
    while i < len {
        buf[i] = s.as_bytes()[i];
        let d = ref_b64(buf[i]);
        assert!(d >= 0, "C11/encode-alphabet");
        assert!((d >= 32) == (i + 1 < len), "C11/encode-continuation");
        i += 1;
    }
    let r = ref_parse(&buf[..len]);
    assert!(r.status == ST_OK && r.n == 1 && r.exact[0] && r.vals[0] == n, "C11/encode-standard");
    let mut rv: Vec<i64> = Vec::with_capacity(4);
    let res = parse_vlq_segment_into(&s, &mut rv);
    assert!(res.is_ok(), "C11/roundtrip-ok");
    assert!(rv.len() == 1 && rv[0] == n, "C11/roundtrip-value");
    kani::cover!(len == 13, "13 digits");
    kani::cover!(n < 0 && len == 7, "negative 7 digits");
    kani::cover!(n == 0, "zero");
    forget(res);
    forget(rv);
    forget(s);
}

// C11/roundtrip of a two-value list through the public API, both |n| <= 2^32
// (every difference of two u32 the map encoder can emit).
#[kani::proof]
#[kani::stub(std::string::String::new, crate::vstubs::string_new)]
#[kani::stub(std::string::String::push, crate::vstubs::string_push)]
#[kani::stub(std::vec::Vec::push, crate::vstubs::vec_push)]
#[kani::unwind(16)]
fn c11_roundtrip_2() {
    let a: i64 = kani::any();
    let b: i64 = kani::any();
    let lim = 1i64 << 32;
    kani::assume(a >= -lim && a <= lim && b >= -lim && b <= lim);
    let nums = [a, b];
    let res = generate_vlq_segment(&nums);
    assert!(res.is_ok(), "C11/generate-ok");
    let s = match res {
        Ok(s) => s,
        Err(e) => {
            forget(e);
            return;
        }
    };
    assert!(s.len() >= 2 && s.len() <= 14, "C11/generate-length");
    let mut rv: Vec<i64> = Vec::with_capacity(4);
    let res = parse_vlq_segment_into(&s, &mut rv);
    assert!(res.is_ok(), "C11/roundtrip2-ok");
    assert!(rv.len() == 2 && rv[0] == a && rv[1] == b, "C11/roundtrip2-values");
    kani::cover!(a == lim && b == -lim, "extremes");
    kani::cover!(a < 0 && b > 0 && s.len() == 9, "mixed");
    forget(res);
    forget(rv);
    forget(s);
}

// C11/canonical: for every canonical single-value text t of length N,
// encode(parse(t)) == t.
fn c11_canon_body<const N: usize>() {
    let t: [u8; N] = kani::any();
    let mut i = 0;
    while i < N {
        let d = ref_b64(t[i]);
        kani::assume(d >= 0);
        kani::assume((d >= 32) == (i + 1 < N));
        i += 1;
    }
    let last = ref_b64(t[N - 1]);
    // canonical: no redundant zero top digit, no negative zero, representable
    if N > 1 {
        kani::assume(last != 0);
    } else {
        kani::assume(last != 1);
    }
    if N == 13 {
        kani::assume(last < 8);
    }
    let mut rv: Vec<i64> = Vec::with_capacity(4);
    let res = parse_vlq_segment_into(as_str(&t), &mut rv);
    assert!(res.is_ok(), "C11/canon-parse-ok");
    assert!(rv.len() == 1, "C11/canon-single");
    let v = rv[0];
    let r = ref_parse(&t);
    assert!(r.status == ST_OK && r.n == 1 && r.exact[0] && r.vals[0] == v, "C11/canon-standard");
    let mut s = String::new();
    encode_vlq(&mut s, v);
    assert!(s.len() == N, "C11/canon-reencode-length");
    let mut i = 0;
    while i < N {
        assert!(s.as_bytes()[i] == t[i], "C11/canon-reencode-bytes");
        i += 1;
    }
    kani::cover!(v < 0, "negative");
    kani::cover!(v > 0, "positive");
    forget(res);
    forget(rv);
    forget(s);
}

macro_rules! c11_canon {
    ($name:ident, $n:literal, $u:literal) => {
        #[kani::proof]
        #[kani::stub(std::string::String::new, crate::vstubs::string_new)]
        #[kani::stub(std::string::String::push, crate::vstubs::string_push)]
        #[kani::stub(std::vec::Vec::push, crate::vstubs::vec_push)]
        #[kani::unwind($u)]
        fn $name() {
            c11_canon_body::<$n>()
        }
    };
}
c11_canon!(c11_canon_len1, 1, 4);
c11_canon!(c11_canon_len2, 2, 5);
c11_canon!(c11_canon_len3, 3, 6);
c11_canon!(c11_canon_len4, 4, 7);
c11_canon!(c11_canon_len5, 5, 8);
c11_canon!(c11_canon_len6, 6, 9);
c11_canon!(c11_canon_len7, 7, 10);
c11_canon!(c11_canon_len8, 8, 11);
c11_canon!(c11_canon_len9, 9, 12);
c11_canon!(c11_canon_len10, 10, 13);
c11_canon!(c11_canon_len11, 11, 14);
c11_canon!(c11_canon_len12, 12, 15);
c11_canon!(c11_canon_len13, 13, 16);

// C11/standard: on every string over the alphabet of length N the decoder agrees
// with the reference reader (values, leftover, empty, overflow).
fn check_against_ref(t: &[u8], foreign_must_fail: bool) {
    let r = ref_parse(t);
    let mut rv: Vec<i64> = Vec::with_capacity(REF_MAX);
    let res = parse_vlq_segment_into(as_str(t), &mut rv);
    let code = err_code(&res);
    if r.status == ST_FOREIGN {
        if foreign_must_fail {
            assert!(code != ST_OK, "C06/vlq-foreign-byte-rejected");
        }
    } else {
        if r.status == ST_OK {
            assert!(code == ST_OK, "C11/standard-ok");
            assert!(rv.len() == r.n, "C11/standard-count");
            let mut i = 0;
            while i < r.n && i < REF_MAX {
                if r.exact[i] {
                    assert!(rv[i] == r.vals[i], "C11/standard-values");
                }
                i += 1;
            }
        } else if r.status == ST_LEFTOVER {
            assert!(code != ST_OK, "C06/vlq-unterminated-rejected");
            assert!(code == ST_LEFTOVER, "C11/standard-leftover-kind");
        } else if r.status == ST_EMPTY {
            assert!(code != ST_OK, "C06/vlq-empty-rejected");
            assert!(code == ST_EMPTY, "C11/standard-empty-kind");
        } else {
            assert!(code != ST_OK, "C06/vlq-overlong-rejected");
            assert!(code == ST_OVERFLOW, "C11/standard-overflow-kind");
        }
    }
    kani::cover!(r.status == ST_OK && r.n >= 1, "accepted");
    forget(res);
    forget(rv);
}

fn c11_ref_body<const N: usize>() {
    let t: [u8; N] = kani::any();
    let mut i = 0;
    while i < N {
        kani::assume(ref_b64(t[i]) >= 0);
        i += 1;
    }
    check_against_ref(&t, true);
    let r = ref_parse(&t);
    kani::cover!(r.status == ST_LEFTOVER, "unterminated");
    kani::cover!(r.status == ST_OK && r.n == N, "all single digit values");
    forget(r);
}

macro_rules! c11_ref {
    ($name:ident, $n:literal, $u:literal) => {
        #[kani::proof]
        #[kani::stub(std::string::String::new, crate::vstubs::string_new)]
        #[kani::stub(std::string::String::push, crate::vstubs::string_push)]
        #[kani::stub(std::vec::Vec::push, crate::vstubs::vec_push)]
        #[kani::unwind($u)]
        fn $name() {
            c11_ref_body::<$n>()
        }
    };
}
c11_ref!(c11_ref_len1, 1, 4);
c11_ref!(c11_ref_len2, 2, 5);
c11_ref!(c11_ref_len3, 3, 6);
c11_ref!(c11_ref_len4, 4, 7);
c11_ref!(c11_ref_len5, 5, 8);
c11_ref!(c11_ref_len6, 6, 9);
c11_ref!(c11_ref_len8, 8, 11);

#[kani::proof]
#[kani::stub(std::string::String::new, crate::vstubs::string_new)]
#[kani::stub(std::string::String::push, crate::vstubs::string_push)]
#[kani::stub(std::vec::Vec::push, crate::vstubs::vec_push)]
#[kani::unwind(3)]
fn c11_ref_len0() {
    let t: [u8; 0] = [];
    let mut rv: Vec<i64> = Vec::with_capacity(2);
    let res = parse_vlq_segment_into(as_str(&t), &mut rv);
    assert!(err_code(&res) == ST_EMPTY, "C11/standard-empty-kind");
    forget(res);
    forget(rv);
}

// C11/overflow: a value running into a 14th digit is VlqOverflow wherever it
// starts; (13 digits never are: c11_canon_len13 / c06_vlq_len13).
#[kani::proof]
#[kani::stub(std::string::String::new, crate::vstubs::string_new)]
#[kani::stub(std::string::String::push, crate::vstubs::string_push)]
#[kani::stub(std::vec::Vec::push, crate::vstubs::vec_push)]
#[kani::unwind(18)]
fn c11_overflow_14() {
    let t: [u8; 15] = kani::any();
    let lead: bool = kani::any(); // optional complete one-digit value in front
    let start = if lead { 1 } else { 0 };
    let mut i = 0;
    while i < 15 {
        let d = ref_b64(t[i]);
        kani::assume(d >= 0);
        if lead && i == 0 {
            kani::assume(d < 32);
        } else if i < start + 13 {
            kani::assume(d >= 32);
        }
        i += 1;
    }
    let n = start + 14;
    let mut rv: Vec<i64> = Vec::with_capacity(4);
    let res = parse_vlq_segment_into(as_str(&t[..n]), &mut rv);
    assert!(err_code(&res) == ST_OVERFLOW, "C11/overflow-14-digits");
    kani::cover!(lead, "after a complete value");
    kani::cover!(!lead, "first value");
    forget(res);
    forget(rv);
}

// ---------------------------------------------------------------------------
// C06 at the VLQ layer: any ASCII text of length N; faults (foreign byte,
// unterminated, empty, > 13 digits) must be errors, otherwise values = reference.
fn c06_vlq_body<const N: usize>() {
    let t: [u8; N] = kani::any();
    let mut i = 0;
    while i < N {
        kani::assume(t[i] < 0x80);
        i += 1;
    }
    check_against_ref(&t, true);
    let r = ref_parse(&t);
    kani::cover!(r.status == ST_FOREIGN, "foreign byte present");
    kani::cover!(r.status == ST_OK, "well formed");
    forget(r);
}

macro_rules! c06_vlq {
    ($name:ident, $n:literal, $u:literal) => {
        #[kani::proof]
        #[kani::stub(std::string::String::new, crate::vstubs::string_new)]
        #[kani::stub(std::string::String::push, crate::vstubs::string_push)]
        #[kani::stub(std::vec::Vec::push, crate::vstubs::vec_push)]
        #[kani::unwind($u)]
        fn $name() {
            c06_vlq_body::<$n>()
        }
    };
}
c06_vlq!(c06_vlq_len1, 1, 4);
c06_vlq!(c06_vlq_len2, 2, 5);
c06_vlq!(c06_vlq_len3, 3, 6);
c06_vlq!(c06_vlq_len5, 5, 8);
c06_vlq!(c06_vlq_len8, 8, 11);
c06_vlq!(c06_vlq_len13, 13, 16);
c06_vlq!(c06_vlq_len14, 14, 17);

// C06: a byte >= 0x80 (as part of a valid 2-byte UTF-8 sequence at any offset of a
// 5-byte text whose other bytes are alphabet digits) is rejected.
#[kani::proof]
#[kani::stub(std::string::String::new, crate::vstubs::string_new)]
#[kani::stub(std::string::String::push, crate::vstubs::string_push)]
#[kani::stub(std::vec::Vec::push, crate::vstubs::vec_push)]
#[kani::unwind(8)]
fn c06_vlq_utf8_len5() {
    let mut t: [u8; 5] = kani::any();
    let k: usize = kani::any();
    kani::assume(k < 4);
    let mut i = 0;
    while i < 5 {
        if i != k && i != k + 1 {
            kani::assume(ref_b64(t[i]) >= 0);
        }
        i += 1;
    }
    let lead: u8 = kani::any();
    let cont: u8 = kani::any();
    kani::assume(lead >= 0xC2 && lead <= 0xDF && cont >= 0x80 && cont <= 0xBF);
    t[k] = lead;
    t[k + 1] = cont;
    let mut rv: Vec<i64> = Vec::with_capacity(8);
    let res = parse_vlq_segment_into(as_str(&t), &mut rv);
    assert!(res.is_err(), "C06/vlq-foreign-byte-rejected");
    kani::cover!(k == 3, "at the end");
    kani::cover!(k == 0, "at the start");
    forget(res);
    forget(rv);
}

// ---------------------------------------------------------------------------
// C05: the public parser returns (never panics) on any 0..14 bytes < 0x80 and on
// any text containing a 2-byte sequence.
#[kani::proof]
#[kani::stub(std::string::String::new, crate::vstubs::string_new)]
#[kani::stub(std::string::String::push, crate::vstubs::string_push)]
#[kani::stub(std::vec::Vec::push, crate::vstubs::vec_push)]
#[kani::unwind(17)]
fn c05_vlq_any14() {
    let t: [u8; 14] = kani::any();
    let n: usize = kani::any();
    kani::assume(n <= 14);
    let mut i = 0;
    while i < 14 {
        kani::assume(t[i] < 0x80);
        i += 1;
    }
    let mut rv: Vec<i64> = Vec::with_capacity(16);
    let res = parse_vlq_segment_into(as_str(&t[..n]), &mut rv);
    kani::cover!(res.is_ok() && rv.len() == 1 && n == 13, "13-digit value accepted");
    kani::cover!(res.is_err() && n == 14, "14 bytes rejected");
    kani::cover!(res.is_ok() && rv.len() > 0 && rv[0] < 0, "negative value");
    forget(res);
    forget(rv);
}

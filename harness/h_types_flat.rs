// Kani harnesses for src/types.rs (child module `verif_h_flat` of `crate::types`).
use super::verif_h::{any_token, mk_index, mk_map, mk_section, vec_of};
use super::*;
use std::mem::forget;

// ---------------------------------------------------------------------------
// C08 / C05: the per-token body of SourceMapIndex::flatten, lifted textually from
// /repo/src/types.rs at run time, with `builder` bound to a recording mock that has
// the method names and signatures the body uses.
use std::cell::Cell;

#[derive(Clone, Copy, PartialEq)]
struct StrId(*const u8, usize);

fn sid(s: Option<&str>) -> Option<StrId> {
    s.map(|s| StrId(s.as_ptr(), s.len()))
}

struct MockBuilder {
    adds: u32,
    add_pos: (u32, u32, u32, u32),
    add_source: Option<StrId>,
    add_name: Option<StrId>,
    add_range: bool,
    ret_src_id: u32,
    ret_name_id: u32,
    has_answer: bool,
    has_queries: Cell<u32>,
    has_query_id: Cell<u32>,
    sets: u32,
    set_id: u32,
    set_contents: Option<StrId>,
    ignores: u32,
    ignore_id: u32,
}

impl MockBuilder {
    fn new() -> MockBuilder {
        MockBuilder {
            adds: 0,
            add_pos: (0, 0, 0, 0),
            add_source: None,
            add_name: None,
            add_range: false,
            ret_src_id: kani::any(),
            ret_name_id: kani::any(),
            has_answer: kani::any(),
            has_queries: Cell::new(0),
            has_query_id: Cell::new(0),
            sets: 0,
            set_id: 0,
            set_contents: None,
            ignores: 0,
            ignore_id: 0,
        }
    }
    #[allow(clippy::too_many_arguments)]
    fn add(&mut self, dst_line: u32, dst_col: u32, src_line: u32, src_col: u32, source: Option<&str>,
           name: Option<&str>, is_range: bool) -> RawToken {
        self.adds += 1;
        self.add_pos = (dst_line, dst_col, src_line, src_col);
        self.add_source = sid(source);
        self.add_name = sid(name);
        self.add_range = is_range;
        RawToken {
            dst_line,
            dst_col,
            src_line,
            src_col,
            src_id: if source.is_some() { self.ret_src_id } else { !0 },
            name_id: if name.is_some() { self.ret_name_id } else { !0 },
            is_range,
        }
    }
    fn has_source_contents(&self, src_id: u32) -> bool {
        self.has_queries.set(self.has_queries.get() + 1);
        self.has_query_id.set(src_id);
        self.has_answer
    }
    fn set_source_contents(&mut self, src_id: u32, contents: Option<&str>) {
        self.sets += 1;
        self.set_id = src_id;
        self.set_contents = sid(contents);
    }
    fn add_to_ignore_list(&mut self, src_id: u32) {
        self.ignores += 1;
        self.ignore_id = src_id;
    }
}

#[allow(unused_mut, unused_variables, unreachable_code, clippy::never_loop)]
fn flat_step(token: Token<'_>, map: &SourceMap, off_line: u32, off_col: u32, builder: &mut MockBuilder) -> Result<()> {
    for _once in 0..1 {
        /*@LIFT flatten_token_body@*/
    }
    Ok(())
}

/// a section map with 2 sources and 1 name: source 0 has contents and is not
/// ignored, source 1 has no contents and is on the ignore list (concrete, so that no
/// container is built under a symbolic guard; the token's ids are what is symbolic)
fn section_map(tok: RawToken) -> SourceMap {
    let mut sm = mk_map(vec_of(&[tok]));
    sm.sources.push("a".into());
    sm.sources.push("b".into());
    sm.names.push("x".into());
    sm.sources_content.push(Some(SourceView::new("A".into())));
    sm.sources_content.push(None);
    sm.ignore_list.insert(1);
    sm
}

fn flat_contract(overflow_free: bool) {
    let tok = any_token();
    let sm = section_map(tok);
    let off_line: u32 = kani::any();
    let off_col: u32 = kani::any();
    let want_line = tok.dst_line as u64 + off_line as u64;
    let want_col = tok.dst_col as u64 + if tok.dst_line == 0 { off_col as u64 } else { 0 };
    let fits = want_line <= u32::MAX as u64 && want_col <= u32::MAX as u64;
    if overflow_free {
        kani::assume(fits);
    }
    let mut b = MockBuilder::new();
    let token = sm.get_token(0).unwrap();
    let res = flat_step(token, &sm, off_line, off_col, &mut b);
    let ok = res.is_ok();
    forget(res);
    if fits {
        assert!(ok, "C08/flat-step-succeeds");
    }
    if ok {
        assert!(b.adds == 1, "C08/flat-adds-each-token-once");
        assert!(b.add_pos.0 as u64 == want_line, "C08/flat-moved-down-by-line-offset");
        assert!(b.add_pos.1 as u64 == want_col, "C08/flat-moved-right-on-first-line-only");
        assert!(b.add_pos.2 == tok.src_line && b.add_pos.3 == tok.src_col, "C08/flat-original-position-carried");
        let src_name = if tok.src_id == !0 { None } else { sid(sm.get_source(tok.src_id)) };
        let name = if tok.name_id == !0 { None } else { sid(sm.get_name(tok.name_id)) };
        assert!(b.add_source == src_name, "C08/flat-source-name-carried");
        assert!(b.add_name == name, "C08/flat-name-carried");
        assert!(b.add_range == tok.is_range, "C08/flat-range-flag-carried");
        let has_source = src_name.is_some();
        if has_source && !b.has_answer {
            assert!(b.sets == 1 && b.set_id == b.ret_src_id, "C08/flat-first-seen-contents-stored-under-new-id");
            assert!(b.has_query_id.get() == b.ret_src_id, "C08/flat-contents-probe-uses-new-id");
            assert!(b.set_contents == sid(sm.get_source_contents(tok.src_id)), "C08/flat-contents-fetched-with-section-id");
        } else {
            assert!(b.sets == 0, "C08/flat-contents-not-overwritten");
        }
        let ignored = tok.src_id == 1;
        if ignored {
            assert!(b.ignores == 1 && b.ignore_id == b.ret_src_id, "C08/flat-ignore-list-carried-under-new-id");
        } else {
            assert!(b.ignores == 0, "C08/flat-ignore-list-not-invented");
        }
        kani::cover!(has_source && !b.has_answer && tok.src_id == 0, "contents of first source carried");
        kani::cover!(has_source && !b.has_answer && tok.src_id == 1, "absent contents of second source recorded as none");
        kani::cover!(ignored && tok.src_id == 1, "ignored second source");
        kani::cover!(tok.dst_line == 0 && off_col > 0, "first line shifted right");
        kani::cover!(tok.dst_line > 0 && off_col > 0, "later line not shifted");
        kani::cover!(!has_source && tok.src_id != !0, "dangling source id");
    } else {
        assert!(b.adds == 0, "C08/flat-failed-step-adds-nothing");
    }
    forget(sm);
}

#[kani::proof]
#[kani::unwind(8)]
#[kani::stub(alloc::fmt::format, crate::vstubs::fmt_format)]
fn c08_flat_step() {
    flat_contract(true)
}

// C05: same step with unconstrained offsets and positions: returns, never panics,
// and never reports success with a wrapped position.
#[kani::proof]
#[kani::unwind(8)]
#[kani::stub(alloc::fmt::format, crate::vstubs::fmt_format)]
fn c05_flatten_arith() {
    flat_contract(false)
}

// C08: flatten's forward translation and lookup_token's inverse translation agree on
// every token position (2 sections x 1 token, C08's well-formedness).
#[kani::proof]
#[kani::unwind(8)]
#[kani::stub(alloc::fmt::format, crate::vstubs::fmt_format)]
fn c08_agree() {
    let o0: (u32, u32) = kani::any();
    let o1: (u32, u32) = kani::any();
    kani::assume(o0 < o1);
    let t0 = any_token();
    let t1 = any_token();
    kani::assume(!t0.is_range && !t1.is_range);
    let which: bool = kani::any();
    // C08 quantifies over index maps whose translated positions exist (no u32 overflow; that region is C05's)
    kani::assume(t0.dst_line as u64 + o0.0 as u64 <= u32::MAX as u64 && t1.dst_line as u64 + o1.0 as u64 <= u32::MAX as u64);
    kani::assume(t0.dst_col as u64 + o0.1 as u64 <= u32::MAX as u64 && t1.dst_col as u64 + o1.1 as u64 <= u32::MAX as u64);
    // flattened positions through the repository's own step
    let m0 = mk_map(vec_of(&[t0]));
    let m1 = mk_map(vec_of(&[t1]));
    let mut b0 = MockBuilder::new();
    let mut b1 = MockBuilder::new();
    let r0 = flat_step(m0.get_token(0).unwrap(), &m0, o0.0, o0.1, &mut b0);
    let r1 = flat_step(m1.get_token(0).unwrap(), &m1, o1.0, o1.1, &mut b1);
    kani::assume(r0.is_ok() && r1.is_ok());
    forget(r0);
    forget(r1);
    let p0 = (b0.add_pos.0, b0.add_pos.1);
    let p1 = (b1.add_pos.0, b1.add_pos.1);
    // well-formed index: section 0 keeps its token before section 1's offset
    kani::assume(p0 < o1);
    let mut secs = Vec::with_capacity(3);
    secs.push(mk_section(o0, Some(m0)));
    secs.push(mk_section(o1, Some(m1)));
    let idx = mk_index(secs);
    let (p, want) = if which { (p1, t1) } else { (p0, t0) };
    let got = idx.lookup_token(p.0, p.1).map(|t| t.get_raw_token());
    assert!(got.is_some(), "C08/agree-flattened-position-resolves");
    assert!(got == Some(want), "C08/agree-same-original-location");
    kani::cover!(which && t1.dst_line == 0 && o1.1 > 0, "second section, first line, shifted");
    kani::cover!(!which && t0.dst_line > 0, "first section, later line");
    kani::cover!(!which && p0.0 == o1.0, "token on the line where the next section starts");
    forget(idx);
}



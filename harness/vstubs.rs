// Stub replacements used by the harnesses through #[kani::stub(..)] (-Z stubbing).
// Injected into the scratch copy of the crate as `crate::vstubs` under cfg(kani).
// Every stub is part of the claim of each harness that applies it (DESIGN.md section 3).
#![allow(dead_code)]

use std::alloc::{alloc, Allocator, Layout};
use std::cmp::Ordering;

/// S1: fixed capacity handed out by `Vec::new`/`Vec::with_capacity`/`String::new`.
pub const CAP: usize = 48;

pub fn vec_with_capacity<T>(_capacity: usize) -> Vec<T> {
    let layout = Layout::array::<T>(CAP).unwrap();
    if layout.size() == 0 {
        // zero-sized T: never reallocates anyway
        return unsafe { Vec::from_raw_parts(std::ptr::NonNull::<T>::dangling().as_ptr(), 0, CAP) };
    }
    let p = unsafe { alloc(layout) } as *mut T;
    unsafe { Vec::from_raw_parts(p, 0, CAP) }
}

/// small-capacity variant (8) for harnesses whose vectors hold at most a few large elements
pub fn vec_new_small<T>() -> Vec<T> {
    let layout = Layout::array::<T>(8).unwrap();
    if layout.size() == 0 {
        return unsafe { Vec::from_raw_parts(std::ptr::NonNull::<T>::dangling().as_ptr(), 0, 8) };
    }
    let p = unsafe { alloc(layout) } as *mut T;
    unsafe { Vec::from_raw_parts(p, 0, 8) }
}

pub fn vec_new<T>() -> Vec<T> {
    vec_with_capacity::<T>(CAP)
}

pub fn vec_push<T, A: Allocator>(v: &mut Vec<T, A>, value: T) {
    let len = v.len();
    assert!(len < v.capacity(), "verif: capacity bound exceeded");
    unsafe {
        std::ptr::write(v.as_mut_ptr().add(len), value);
        v.set_len(len + 1);
    }
}

pub fn vec_reserve<T, A: Allocator>(v: &mut Vec<T, A>, additional: usize) {
    assert!(
        v.len() + additional <= v.capacity(),
        "verif: capacity bound exceeded"
    );
}

pub fn string_new() -> String {
    let v: Vec<u8> = vec_with_capacity::<u8>(CAP);
    unsafe { String::from_utf8_unchecked(v) }
}

/// larger variant for the serialiser harnesses with full-width fields
pub const CAP_BIG: usize = 256;

pub fn string_new_big() -> String {
    let layout = Layout::array::<u8>(CAP_BIG).unwrap();
    let p = unsafe { alloc(layout) };
    unsafe { String::from_utf8_unchecked(Vec::from_raw_parts(p, 0, CAP_BIG)) }
}

pub fn string_push(s: &mut String, ch: char) {
    assert!((ch as u32) < 0x80, "verif: String::push stub is ASCII only");
    let v = unsafe { s.as_mut_vec() };
    let len = v.len();
    assert!(len < v.capacity(), "verif: capacity bound exceeded");
    unsafe {
        std::ptr::write(v.as_mut_ptr().add(len), ch as u8);
        v.set_len(len + 1);
    }
}

/// S2: insertion sorts standing in for core's sort drivers (symbolic lengths only).
pub fn sort_unstable<T, F: FnMut(&T, &T) -> bool>(v: &mut [T], is_less: &mut F) {
    insertion(v, is_less)
}

pub fn sort_stable<T, F: FnMut(&T, &T) -> bool, B>(v: &mut [T], is_less: &mut F) {
    insertion(v, is_less)
}

fn insertion<T, F: FnMut(&T, &T) -> bool>(v: &mut [T], is_less: &mut F) {
    let n = v.len();
    let mut i = 1;
    while i < n {
        let mut j = i;
        while j > 0 && is_less(&v[j], &v[j - 1]) {
            v.swap(j, j - 1);
            j -= 1;
        }
        i += 1;
    }
}

/// S3: byte loop for core::slice::memchr::memchr_aligned.
pub fn memchr_aligned(x: u8, text: &[u8]) -> Option<usize> {
    let mut i = 0;
    while i < text.len() {
        if text[i] == x {
            return Some(i);
        }
        i += 1;
    }
    None
}

/// S4: error-message formatting is not the subject anywhere it is stubbed.
pub fn fmt_format(_args: std::fmt::Arguments<'_>) -> String {
    String::new()
}

pub fn ord_code(o: Ordering) -> i8 {
    match o {
        Ordering::Less => -1,
        Ordering::Equal => 0,
        Ordering::Greater => 1,
    }
}

/// S6: io::Error::new(kind, payload) -> io::Error::from(kind): keeps the kind, drops the
/// boxed payload (message text is never the subject).
pub fn io_error_new<E>(kind: std::io::ErrorKind, _error: E) -> std::io::Error
where
    E: Into<Box<dyn std::error::Error + Send + Sync>>,
{
    std::io::Error::from(kind)
}

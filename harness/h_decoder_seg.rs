// Kani harnesses for src/decoder.rs (child module `verif_h_seg` of `crate::decoder`).
// C02/C06/C05/C07: the per-segment body of decode_regular, lifted textually from
// /repo/src/decoder.rs on every run (/*@LIFT ...@*/ placeholder), driven from an
// arbitrary previous decoder state.  Built in its own scratch copy, so that a change to
// the lifted text that no longer fits this harness only affects these harnesses.
use super::verif_h::{any_st, as_str, LenOnly, MockRmi, St};
use super::*;
use crate::vlq::verif_h::{ref_parse, ST_FOREIGN, ST_LEFTOVER, ST_OK, ST_OVERFLOW};
use std::mem::forget;

#[allow(unused_assignments, unused_mut, unreachable_code, clippy::never_loop)]
fn seg_step(
    segment: &str,
    line_index: usize,
    dst_line: usize,
    st: &mut St,
    n_sources: usize,
    n_names: usize,
    rmi: &MockRmi,
    tokens: &mut Vec<RawToken>,
) -> Result<()> {
    let mut dst_col = st.dst_col;
    let mut src_id = st.src_id;
    let mut src_line = st.src_line;
    let mut src_col = st.src_col;
    let mut name_id = st.name_id;
    let sources = LenOnly(n_sources);
    let names = LenOnly(n_names);
    // `nums` is a scratch buffer carried across iterations (and, in decode_hermes, across
    // sources): whatever an earlier iteration left in it must not matter
    let mut nums: Vec<i64> = Vec::with_capacity(16);
    let residue: u8 = kani::any();
    if residue >= 1 {
        nums.push(kani::any());
    }
    if residue >= 2 {
        nums.push(kani::any());
    }
    for _once in 0..1 {
        /*@LIFT decoder_segment_body@*/
    }
    st.dst_col = dst_col;
    st.src_id = src_id;
    st.src_line = src_line;
    st.src_col = src_col;
    st.name_id = name_id;
    forget(nums);
    Ok(())
}


const TWO32: i64 = 1i64 << 32;

/// The whole per-segment contract, checked for one segment text `t` from an
/// arbitrary previous state: C06 (faults rejected), C02 (well-formed segments
/// decode to previous + deltas), C07 (range flag = bit line_index), C05 (no panic).
fn seg_contract(t: &[u8]) {
    let st0 = any_st();
    let mut st = st0;
    let n_sources: u32 = kani::any();
    let n_names: u32 = kani::any();
    let line_index: usize = kani::any();
    kani::assume(line_index < 10);
    let dst_line: u32 = kani::any();
    let rmi = MockRmi { bits: kani::any(), len: kani::any() };
    kani::assume(rmi.len <= 8);
    let mut tokens: Vec<RawToken> = Vec::with_capacity(4);
    let r = ref_parse(t);
    let res = seg_step(as_str(t), line_index, dst_line as usize, &mut st, n_sources as usize, n_names as usize, &rmi, &mut tokens);
    let ok = res.is_ok();
    forget(res);
    if r.status == ST_FOREIGN {
        assert!(!ok, "C06/seg-foreign-byte-rejected");
    } else if r.status == ST_LEFTOVER {
        assert!(!ok, "C06/seg-unterminated-value-rejected");
    } else if r.status == ST_OVERFLOW {
        assert!(!ok, "C06/seg-overlong-value-rejected");
    } else if r.status == ST_OK {
        let k = r.n;
        if k != 1 && k != 4 && k != 5 {
            assert!(!ok, "C06/seg-bad-field-count-rejected");
        } else if r.exact[0] && (k == 1 || (r.exact[1] && r.exact[2] && r.exact[3])) && (k < 5 || r.exact[4]) {
            let col = st0.dst_col as i64 + r.vals[0];
            let sid = st0.src_id as i64 + r.vals[1];
            let sl = st0.src_line as i64 + r.vals[2];
            let sc = st0.src_col as i64 + r.vals[3];
            let nid = st0.name_id as i64 + r.vals[4];
            let src_bad = k >= 4 && (sid < 0 || sid >= n_sources as i64);
            let name_bad = k == 5 && (nid < 0 || nid >= n_names as i64);
            if src_bad {
                assert!(!ok, "C06/seg-source-index-out-of-range-rejected");
            }
            if name_bad && !src_bad {
                assert!(!ok, "C06/seg-name-index-out-of-range-rejected");
            }
            let in32 = |v: i64| v >= 0 && v < TWO32;
            let wf = in32(col) && (k == 1 || (in32(sl) && in32(sc))) && !src_bad && !name_bad;
            if wf {
                assert!(ok, "C02/seg-well-formed-accepted");
                assert!(tokens.len() == 1, "C02/seg-one-token");
                let tk = tokens[0];
                assert!(tk.dst_line == dst_line, "C02/seg-generated-line");
                assert!(tk.dst_col as i64 == col && st.dst_col as i64 == col, "C02/seg-generated-column-accumulates");
                if k == 1 {
                    assert!(tk.src_id == !0 && tk.name_id == !0, "C02/seg-one-field-no-source-no-name");
                    assert!(st.src_id == st0.src_id && st.src_line == st0.src_line && st.src_col == st0.src_col
                        && st.name_id == st0.name_id, "C02/seg-one-field-leaves-accumulators");
                } else {
                    assert!(tk.src_id as i64 == sid && st.src_id as i64 == sid, "C02/seg-source-index-accumulates");
                    assert!(tk.src_line as i64 == sl && st.src_line as i64 == sl, "C02/seg-original-line-accumulates");
                    assert!(tk.src_col as i64 == sc && st.src_col as i64 == sc, "C02/seg-original-column-accumulates");
                    if k == 5 {
                        assert!(tk.name_id as i64 == nid && st.name_id as i64 == nid, "C02/seg-name-index-accumulates");
                    } else {
                        assert!(tk.name_id == !0 && st.name_id == st0.name_id, "C02/seg-four-fields-no-name");
                    }
                }
                let want_range = line_index < rmi.len && rmi.bit(line_index);
                assert!(tk.is_range == want_range, "C07/seg-range-flag-is-bit-of-line-index");
            }
            kani::cover!(wf && k == 5 && r.vals[1] < 0, "well formed, negative source delta");
            kani::cover!(wf && k == 4 && tokens.len() == 1 && tokens[0].is_range, "well formed 4-field range token");
            kani::cover!(wf && k == 1, "well formed 1-field");
            kani::cover!(k >= 4 && sid >= TWO32, "source index past 2^32");
            kani::cover!(k >= 4 && sid < 0, "source index driven negative");
            kani::cover!(k == 5 && !src_bad && nid >= n_names as i64, "name index past the array");
        }
    }
    // (whether a rejected segment had already pushed a token is not observable: the whole
    // document is refused; nothing is asserted about it)
    // consequence: a pushed token's indices resolve or are the no-source marker
    if tokens.len() == 1 {
        let tk = tokens[0];
        assert!(tk.src_id == !0 || tk.src_id < n_sources, "C06/seg-token-source-resolves");
        assert!(tk.name_id == !0 || tk.name_id < n_names, "C06/seg-token-name-resolves");
    }
    forget(tokens);
}

fn c02_seg_body<const N: usize>() {
    let t: [u8; N] = kani::any();
    let mut i = 0;
    while i < N {
        kani::assume(t[i] < 0x80 && t[i] != b',' && t[i] != b';');
        i += 1;
    }
    seg_contract(&t);
}

macro_rules! c02_seg {
    ($name:ident, $n:literal, $u:literal) => {
        #[kani::proof]
        #[kani::unwind($u)]
        #[kani::stub(std::vec::Vec::push, crate::vstubs::vec_push)]
        fn $name() {
            c02_seg_body::<$n>()
        }
    };
}
c02_seg!(c02_seg_len1, 1, 4);
c02_seg!(c02_seg_len2, 2, 5);
c02_seg!(c02_seg_len3, 3, 6);
c02_seg!(c02_seg_len4, 4, 7);
c02_seg!(c02_seg_len5, 5, 8);
c02_seg!(c02_seg_len6, 6, 9);
c02_seg!(c02_seg_len7, 7, 10);
c02_seg!(c02_seg_len8, 8, 11);
c02_seg!(c02_seg_len10, 10, 13);
c02_seg!(c02_seg_len11, 11, 14);
c02_seg!(c02_seg_len14, 14, 17);

// the empty segment is skipped: Ok, nothing pushed, state untouched
#[kani::proof]
#[kani::unwind(4)]
#[kani::stub(std::vec::Vec::push, crate::vstubs::vec_push)]
fn c02_seg_empty() {
    let st0 = any_st();
    let mut st = st0;
    let rmi = MockRmi { bits: kani::any(), len: 8 };
    let mut tokens: Vec<RawToken> = Vec::with_capacity(4);
    let t: [u8; 0] = [];
    let res = seg_step(as_str(&t), kani::any(), kani::any(), &mut st, kani::any(), kani::any(), &rmi, &mut tokens);
    assert!(res.is_ok(), "C02/empty-segment-skipped");
    assert!(tokens.len() == 0, "C02/empty-segment-pushes-nothing");
    assert!(st.dst_col == st0.dst_col && st.src_id == st0.src_id && st.src_line == st0.src_line
        && st.src_col == st0.src_col && st.name_id == st0.name_id, "C02/empty-segment-keeps-state");
    forget(res);
    forget(tokens);
}


// Kani harnesses for src/hermes.rs (child module `verif_h_line` of `crate::hermes`).
// C14: the body of the per-LINE loop of the function-map decoder in decode_hermes (column
// restarts at 0 on every line; name index and line carry over; empty mappings skipped),
// lifted from /repo on every run, on tiny lines of single-digit one-field mappings.
use super::*;
use crate::vlq::verif_h::ref_b64;
use std::mem::forget;

#[allow(unused_assignments, unused_mut, unused_variables, unreachable_code, clippy::never_loop)]
fn fm_line_step(line_mapping: &str, name_index0: u32, line0: u32, mappings: &mut Vec<HermesScopeOffset>) -> Option<(u32, u32)> {
    let mut name_index = name_index0;
    let mut line = line0;
    let mut nums: Vec<i64> = Vec::with_capacity(16);
    for _once in 0..1 {
        /*@LIFT hermes_line_body@*/
    }
    forget(nums);
    Some((name_index, line))
}

fn c14_fm_line_body<const N: usize>() {
    let ln: [u8; N] = kani::any();
    let mut i = 0;
    while i < N {
        let d = ref_b64(ln[i]);
        kani::assume(ln[i] == b',' || (d >= 0 && d < 32));
        i += 1;
    }
    let name_index0: u32 = kani::any();
    let line0: u32 = kani::any();
    let mut out: Vec<HermesScopeOffset> = Vec::with_capacity(8);
    let res = fm_line_step(unsafe { std::str::from_utf8_unchecked(&ln) }, name_index0, line0, &mut out);
    // independent reading: mappings separated by ','; empty ones skipped; k digits in a row
    // are one mapping with k single-digit fields (column, name index, line deltas)
    let mut exp = [(0u32, 0u32, 0u32); N];
    let mut ne = 0usize;
    let mut col = 0i64;
    let mut ni = name_index0 as i64;
    let mut l = line0 as i64;
    let mut bad = false;
    let mut field = 0usize;
    let mut i = 0;
    while i < N {
        if ln[i] == b',' {
            field = 0;
        } else {
            let d = ref_b64(ln[i]) as i64;
            let v = if d & 1 == 1 { -(d >> 1) } else { d >> 1 };
            if field == 0 {
                col += v;
                exp[ne] = (col as u32, ni as u32, l as u32);
                ne += 1;
            } else if field == 1 {
                ni += v;
                exp[ne - 1].1 = ni as u32;
            } else if field == 2 {
                l += v;
                exp[ne - 1].2 = l as u32;
            }
            field += 1;
            if col < 0 || ni < 0 || l < 0 || ni >= 1 << 32 || l >= 1 << 32 {
                bad = true;
            }
        }
        i += 1;
    }
    if !bad {
        assert!(res.is_some(), "C14/line-well-formed-line-decodes");
        assert!(out.len() == ne, "C14/line-one-entry-per-non-empty-mapping");
        let mut k = 0;
        while k < N {
            if k < ne && k < out.len() {
                assert!(out[k].column == exp[k].0, "C14/line-column-restarts-at-zero-and-accumulates");
                assert!(out[k].name_index == exp[k].1, "C14/line-name-index-carries-over");
                assert!(out[k].line == exp[k].2, "C14/line-line-number-carries-over");
            }
            k += 1;
        }
        if let Some((n1, l1)) = res {
            assert!(n1 as i64 == ni && l1 as i64 == l, "C14/line-running-state-after-line");
        }
    }
    if N >= 2 {
        kani::cover!(!bad && ne == 2, "two mappings on the line");
        kani::cover!(!bad && ne == 1 && ln[0] == b',', "leading empty mapping");
        kani::cover!(!bad && ne == 1 && ln[0] != b',' && ln[1] != b',', "two-field mapping");
    }
    forget(out);
}

macro_rules! c14_fm_line {
    ($name:ident, $n:literal, $u:literal) => {
        #[kani::proof]
        #[kani::unwind($u)]
        #[kani::stub(std::vec::Vec::new, crate::vstubs::vec_new_small)]
        #[kani::stub(std::vec::Vec::push, crate::vstubs::vec_push)]
        fn $name() {
            c14_fm_line_body::<$n>()
        }
    };
}
c14_fm_line!(c14_fm_line_n1, 1, 5);
c14_fm_line!(c14_fm_line_n2, 2, 6);
c14_fm_line!(c14_fm_line_n3, 3, 7);

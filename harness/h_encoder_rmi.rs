// Kani harnesses for src/encoder.rs (child module `verif_h_rmi` of `crate::encoder`).
//
// C07 (encoder side) / C05: the per-token body of serialize_range_mappings, lifted
// textually from /repo/src/encoder.rs at run time.  The whole function does not finish
// (bitvec + Vec growth, DESIGN.md section 2), so the body runs against recording mocks
// that have the method names the body uses:
//   token    -> MTok      (is_range, get_dst_line)
//   rmi_data -> MockBits  (len, is_empty, resize, clear, view_bits_mut::<Lsb0>().set(i, v));
//               `set` past 8 * len panics exactly like bitvec's
//   buf      -> MockBuf   (push(b';') starts the next line)
//   encode_rmi (shadowed) -> records the bit field handed over for the current line;
//               the real encode_rmi is decided by c07_rmi_encode_n1 / _n2
// The prologue (initial values) and the epilogue (`if had_rmi { encode_rmi(..) }`) of the
// function are written out in `run` below.
use super::*;

#[derive(Clone, Copy)]
struct MTok {
    line: u32,
    range: bool,
}

impl MTok {
    fn is_range(&self) -> bool {
        self.range
    }
    fn get_dst_line(&self) -> u32 {
        self.line
    }
}

#[derive(Clone, Copy)]
struct MockBits {
    len: usize,
    bits: u64,
}

#[allow(dead_code)]
impl MockBits {
    fn len(&self) -> usize {
        self.len
    }
    fn is_empty(&self) -> bool {
        self.len == 0
    }
    fn resize(&mut self, n: usize, v: u8) {
        assert!(v == 0, "verif: harness bound: mock supports zero fill only");
        assert!(n <= 8, "verif: harness bound on the bit-field size (8 bytes)");
        if n < 8 {
            self.bits &= (1u64 << (8 * n)) - 1;
        }
        self.len = n;
    }
    fn clear(&mut self) {
        self.len = 0;
        self.bits = 0;
    }
    fn view_bits_mut<O>(&mut self) -> &mut MockBits {
        self
    }
    fn set(&mut self, i: usize, v: bool) {
        // bitvec: "index {} out of bounds: {}"
        assert!(i < 8 * self.len, "index out of bounds (BitSlice::set)");
        if v {
            self.bits |= 1u64 << i;
        } else {
            self.bits &= !(1u64 << i);
        }
    }
}

const LINES: usize = 4;

#[derive(Clone, Copy)]
struct MockBuf {
    fields: [u64; LINES],
    written: [bool; LINES],
    cur: usize,
}

impl MockBuf {
    fn push(&mut self, b: u8) {
        assert!(b == b';', "verif: harness bound: the mock output buffer only understands line separators");
        self.cur += 1;
        assert!(self.cur < LINES, "verif: harness bound on lines");
    }
}

fn encode_rmi(out: &mut MockBuf, data: &MockBits) {
    assert!(!out.written[out.cur], "C07/range-one-bit-field-per-line");
    out.written[out.cur] = true;
    out.fields[out.cur] = data.bits;
}

#[derive(Clone, Copy)]
struct St {
    buf: MockBuf,
    prev_line: u32,
    had_rmi: bool,
    empty: bool,
    idx_of_first_in_line: usize,
    rmi_data: MockBits,
}

fn init() -> St {
    St {
        buf: MockBuf { fields: [0; LINES], written: [false; LINES], cur: 0 },
        prev_line: 0,
        had_rmi: false,
        empty: true,
        idx_of_first_in_line: 0,
        rmi_data: MockBits { len: 0, bits: 0 },
    }
}

#[allow(unused_mut, unused_variables, unused_assignments, clippy::never_loop)]
fn step(st: St, idx: usize, token: &MTok) -> St {
    let St { mut buf, mut prev_line, mut had_rmi, mut empty, mut idx_of_first_in_line, mut rmi_data } = st;
    for _once in 0..1 {
        /*@LIFT range_mappings_token_body@*/
    }
    St { buf, prev_line, had_rmi, empty, idx_of_first_in_line, rmi_data }
}

/// `base` non-range tokens on line 0, then toks (c07_rmi_ser_idle decides that the skipped
/// tokens leave the state as it is)
fn run<const N: usize>(base: usize, toks: &[MTok; N]) -> St {
    let mut st = init();
    let mut i = 0;
    while i < N {
        st = step(st, base + i, &toks[i]);
        i += 1;
    }
    if st.had_rmi {
        encode_rmi(&mut st.buf, &st.rmi_data);
    }
    st
}

fn ser_body<const N: usize>(max_base: usize) {
    let base: usize = kani::any();
    kani::assume(base <= max_base);
    let mut toks = [MTok { line: 0, range: false }; N];
    let mut i = 0;
    while i < N {
        toks[i] = MTok { line: kani::any(), range: kani::any() };
        kani::assume((toks[i].line as usize) < LINES);
        if i > 0 {
            kani::assume(toks[i - 1].line <= toks[i].line);
        }
        i += 1;
    }
    let st = run::<N>(base, &toks);
    // reference: per line, bit x is the flag of the x-th token of that line
    let mut want = [0u64; LINES];
    let mut count = [0usize; LINES];
    count[0] = base;
    let mut any_range = false;
    let mut i = 0;
    while i < N {
        let l = toks[i].line as usize;
        if toks[i].range {
            want[l] |= 1u64 << count[l];
            any_range = true;
        }
        count[l] += 1;
        i += 1;
    }
    assert!(st.empty == !any_range, "C07/range-mappings-key-present-iff-any-range-token");
    let mut l = 0;
    while l < LINES {
        let got = if st.buf.written[l] { st.buf.fields[l] } else { 0 };
        assert!(got == want[l], "C07/range-flag-recorded-at-index-within-own-line");
        l += 1;
    }
    kani::cover!(toks[N - 1].range && toks[N - 1].line > 0 && (N < 2 || toks[N - 2].line < toks[N - 1].line),
                 "range token first on a later line");
    kani::cover!(toks[N - 1].range && base + N > 16, "range token at index >= 16 of its line");
    if N >= 2 {
        kani::cover!(toks[0].range && toks[1].range && toks[0].line == toks[1].line, "two range tokens on one line");
        kani::cover!(toks[0].range && toks[1].line >= toks[0].line + 2, "empty line after a line with a range token");
    }
}

#[kani::proof]
#[kani::unwind(6)]
fn c07_rmi_ser_n1() {
    ser_body::<1>(40)
}

#[kani::proof]
#[kani::unwind(6)]
fn c07_rmi_ser_n2() {
    ser_body::<2>(40)
}

#[kani::proof]
#[kani::unwind(6)]
fn c07_rmi_ser_n3() {
    ser_body::<3>(40)
}

#[kani::proof]
#[kani::unwind(6)]
fn c07_rmi_ser_n4() {
    ser_body::<4>(0)
}

// a non-range token on the line the writer is on changes nothing, from any state
#[kani::proof]
#[kani::unwind(6)]
fn c07_rmi_ser_idle() {
    let st = St {
        buf: MockBuf { fields: kani::any(), written: kani::any(), cur: kani::any() },
        prev_line: kani::any(),
        had_rmi: kani::any(),
        empty: kani::any(),
        idx_of_first_in_line: kani::any(),
        rmi_data: MockBits { len: kani::any(), bits: kani::any() },
    };
    kani::assume(st.buf.cur < LINES);
    let tok = MTok { line: st.prev_line, range: false };
    let after = step(st, kani::any(), &tok);
    // field by field (a derived == on the arrays is a 32-byte memcmp loop)
    let mut same = after.prev_line == st.prev_line
        && after.had_rmi == st.had_rmi
        && after.empty == st.empty
        && after.idx_of_first_in_line == st.idx_of_first_in_line
        && after.rmi_data.len == st.rmi_data.len
        && after.rmi_data.bits == st.rmi_data.bits
        && after.buf.cur == st.buf.cur;
    let mut l = 0;
    while l < LINES {
        same = same && after.buf.fields[l] == st.buf.fields[l] && after.buf.written[l] == st.buf.written[l];
        l += 1;
    }
    assert!(same, "C07/range-writer-idle-on-non-range-token-of-current-line");
    kani::cover!(st.had_rmi, "mid-line with flags pending");
}

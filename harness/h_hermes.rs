// Kani harnesses for src/hermes.rs (child module of `crate::hermes`).
// C14: scope resolution on struct-literal Hermes maps, and the per-mapping body of
// the function-map decoder lifted from decode_hermes.
use super::*;
use crate::types::verif_h::{any_token, mk_map, vec_of};
use std::mem::forget;

fn any_scope() -> HermesScopeOffset {
    HermesScopeOffset { line: kani::any(), column: kani::any(), name_index: kani::any() }
}

/// Hermes map with one token (symbolic), `nmaps` function-map slots of which slot 0
/// is absent when `slot0_none`, the last slot holding `scopes` (sorted) and 2 names.
fn mk_hermes(tok: crate::types::RawToken, scopes: Vec<HermesScopeOffset>, slots: usize, slot0_none: bool) -> SourceMapHermes {
    let sm = mk_map(vec_of(&[tok]));
    let mut names = Vec::with_capacity(3);
    names.push(String::from("f"));
    names.push(String::from("g"));
    let fm = HermesFunctionMap { names, mappings: scopes };
    let mut function_maps = Vec::with_capacity(3);
    if slots == 2 {
        if slot0_none {
            function_maps.push(None);
        } else {
            function_maps.push(Some(HermesFunctionMap { names: Vec::new(), mappings: Vec::new() }));
        }
    }
    function_maps.push(Some(fm));
    SourceMapHermes { sm, function_maps, raw_facebook_sources: None }
}

fn c14_scope_body<const N: usize>() {
    let sc: [(u32, u32, u32); N] = kani::any();
    let mut i = 1;
    while i < N {
        kani::assume((sc[i - 1].0, sc[i - 1].1) <= (sc[i].0, sc[i].1));
        i += 1;
    }
    let mut scopes = Vec::with_capacity(N + 1);
    let mut i = 0;
    while i < N {
        scopes.push(HermesScopeOffset { line: sc[i].0, column: sc[i].1, name_index: sc[i].2 });
        i += 1;
    }
    let tok = any_token();
    let slots: usize = if kani::any() { 1 } else { 2 };
    let slot0_none: bool = kani::any();
    let h = mk_hermes(tok, scopes, slots, slot0_none);
    let token = h.sm.get_token(0).unwrap();
    let got = h.get_scope_for_token(token);
    // independent reading of Metro's format: 1-based line, 0-based column; last
    // entry at or before the position; the source's own function map
    let map_slot = slots - 1;
    let has_map = tok.src_id as usize == map_slot;
    let empty_map = slots == 2 && tok.src_id == 0 && !slot0_none;
    let key = (tok.src_line as u64 + 1, tok.src_col);
    let mut last: Option<usize> = None;
    let mut i = 0;
    while i < N {
        if (sc[i].0 as u64, sc[i].1) <= key {
            last = Some(i);
        }
        i += 1;
    }
    if !has_map {
        assert!(got.is_none(), "C14/no-function-map-no-scope");
        let _ = empty_map;
    } else {
        match last {
            None => assert!(got.is_none(), "C14/position-before-all-entries-no-scope"),
            Some(l) => {
                // any entry sharing the greatest position may answer
                let ni = sc[l].2;
                let mut ok = false;
                let mut j = 0;
                while j < N {
                    if (sc[j].0, sc[j].1) == (sc[l].0, sc[l].1) {
                        let nj = sc[j].2;
                        let want = if nj == 0 { Some("f") } else if nj == 1 { Some("g") } else { None };
                        if got == want {
                            ok = true;
                        }
                    }
                    j += 1;
                }
                let _ = ni;
                assert!(ok, "C14/scope-is-name-of-last-entry-at-or-before");
            }
        }
    }
    if N >= 2 {
        kani::cover!(has_map && got == Some("g") && last == Some(0), "first entry answers with second name");
        kani::cover!(has_map && last == Some(N - 1) && tok.src_line as u64 + 1 > sc[N - 1].0 as u64, "token on a later line than the last entry");
        kani::cover!(has_map && last.is_some() && got.is_none(), "name index out of range");
    }
    kani::cover!(!has_map && tok.src_id == 0 && slots == 2 && slot0_none, "source without function map");
    forget(h);
}

macro_rules! c14_scope {
    ($name:ident, $n:literal, $u:literal) => {
        #[kani::proof]
        #[kani::unwind($u)]
        fn $name() {
            c14_scope_body::<$n>()
        }
    };
}
c14_scope!(c14_scope_n0, 0, 4);
c14_scope!(c14_scope_n1, 1, 5);
c14_scope!(c14_scope_n2, 2, 6);
c14_scope!(c14_scope_n3, 3, 7);
c14_scope!(c14_scope_n4, 4, 8);
c14_scope!(c14_scope_n5, 5, 9);

// C14: a bytecode offset on line 0 resolves like the token found there; other lines
// resolve to nothing through DecodedMap.
#[kani::proof]
#[kani::unwind(6)]
fn c14_bytecode() {
    let sc: [(u32, u32, u32); 2] = kani::any();
    kani::assume((sc[0].0, sc[0].1) <= (sc[1].0, sc[1].1));
    let mut scopes = Vec::with_capacity(3);
    scopes.push(HermesScopeOffset { line: sc[0].0, column: sc[0].1, name_index: sc[0].2 });
    scopes.push(HermesScopeOffset { line: sc[1].0, column: sc[1].1, name_index: sc[1].2 });
    let tok = any_token();
    let h = mk_hermes(tok, scopes, 1, false);
    let off: u32 = kani::any();
    let got = h.get_original_function_name(off);
    let via = match h.sm.lookup_token(0, off) {
        Some(t) => h.get_scope_for_token(t),
        None => None,
    };
    assert!(got == via, "C14/bytecode-offset-resolves-like-its-token");
    if tok.dst_line > 0 || (tok.dst_line == 0 && tok.dst_col > off) {
        assert!(got.is_none(), "C14/bytecode-offset-before-first-token");
    }
    let got_some = got.is_some();
    let got_g = got == Some("g");
    let via_some = via.is_some();
    let via_g = via == Some("g");
    assert!(got_some == via_some && got_g == via_g, "C14/bytecode-offset-resolves-like-its-token");
    let dm = DecodedMap::Hermes(h);
    let line: u32 = kani::any();
    let r = dm.get_original_function_name(line, off, None, None);
    if line != 0 {
        assert!(r.is_none(), "C14/decoded-map-other-lines-nothing");
    } else {
        assert!(r.is_some() == via_some && (r == Some("g")) == via_g, "C14/decoded-map-line0");
    }
    kani::cover!(got_some, "offset resolves to a scope");
    kani::cover!(line == 0 && r.is_some(), "through DecodedMap");
    forget(dm);
}


// ---------------------------------------------------------------------------
// C08 (thorough): a Hermes map as a section of an index map: the lookup resolves through
// the section's inner map at the section-relative position.
#[kani::proof]
#[kani::unwind(5)]
fn c08_lookup_hermes_section() {
    let off: (u32, u32) = kani::any();
    let tok = any_token();
    kani::assume(!tok.is_range);
    let h = mk_hermes(tok, Vec::new(), 1, false);
    let mut secs = Vec::with_capacity(2);
    secs.push(crate::types::SourceMapSection::new(off, None, Some(DecodedMap::Hermes(h))));
    let idx = crate::types::SourceMapIndex::new(None, secs);
    let line: u32 = kani::any();
    let col: u32 = kani::any();
    let got = idx.lookup_token(line, col).map(|t| t.get_raw_token());
    let mut want = None;
    if (line, col) >= off {
        let rl = line - off.0;
        let rc = if line == off.0 { col - off.1 } else { col };
        if (tok.dst_line, tok.dst_col) <= (rl, rc) {
            want = Some(tok);
        }
    }
    assert!(got == want, "C08/lookup-hermes-section-relative-position");
    kani::cover!(got.is_some() && line == off.0 && off.1 > 0, "first line of the section, shifted");
    kani::cover!((line, col) >= off && got.is_none(), "inside the section before its token");
    forget(idx);
}

// Kani harnesses for src/utils.rs (child module of `crate::utils`).
// Property C04: greatest_lower_bound is "closest preceding, first on exact hit".
use super::*;

fn c04_glb_body<const N: usize>() {
    let arr: [(u32, u32, u8); N] = kani::any();
    let mut i = 1;
    while i < N {
        kani::assume((arr[i - 1].0, arr[i - 1].1) <= (arr[i].0, arr[i].1));
        i += 1;
    }
    let q: (u32, u32) = kani::any();
    // reference: linear scan
    let mut last_le: Option<usize> = None;
    let mut first_eq: Option<usize> = None;
    let mut i = 0;
    while i < N {
        let k = (arr[i].0, arr[i].1);
        if k <= q {
            last_le = Some(i);
        }
        if k == q && first_eq.is_none() {
            first_eq = Some(i);
        }
        i += 1;
    }
    let got = greatest_lower_bound(&arr[..], &q, |t| (t.0, t.1));
    match got {
        None => assert!(last_le.is_none(), "C04/glb-none-only-when-nothing-precedes"),
        Some((_pos, elem)) => {
            assert!(last_le.is_some(), "C04/glb-some-only-when-something-precedes");
            let want = last_le.unwrap();
            assert!(
                (elem.0, elem.1) == (arr[want].0, arr[want].1),
                "C04/glb-greatest-not-after"
            );
            if let Some(f) = first_eq {
                assert!(std::ptr::eq(elem, &arr[f]), "C04/glb-first-on-exact-hit");
            }
        }
    }
    if N >= 2 {
        kani::cover!(first_eq == Some(0) && arr[1].0 == arr[0].0 && arr[1].1 == arr[0].1, "exact hit with a duplicate");
        kani::cover!(last_le == Some(N - 1) && first_eq.is_none(), "query after the last key");
    }
    if N >= 1 {
        kani::cover!(last_le.is_none(), "query before the first key");
    }
}

macro_rules! c04_glb {
    ($name:ident, $n:literal, $u:literal) => {
        #[kani::proof]
        #[kani::unwind($u)]
        fn $name() {
            c04_glb_body::<$n>()
        }
    };
}
c04_glb!(c04_glb_n0, 0, 3);
c04_glb!(c04_glb_n1, 1, 4);
c04_glb!(c04_glb_n2, 2, 5);
c04_glb!(c04_glb_n3, 3, 6);
c04_glb!(c04_glb_n4, 4, 7);
c04_glb!(c04_glb_n5, 5, 8);
c04_glb!(c04_glb_n6, 6, 9);
c04_glb!(c04_glb_n7, 7, 10);
c04_glb!(c04_glb_n8, 8, 11);
c04_glb!(c04_glb_n12, 12, 15);

// Kani harnesses for src/ram_bundle.rs (child module of `crate::ram_bundle`).
// C20: indexed RAM bundles are parsed exactly and malformed ones are refused.
// One specification (flat arithmetic over the byte buffer, u64) covers well-formed
// bundles and every corruption of them at once: the harness input is ANY byte string
// of the given length.
use super::*;
use std::mem::forget;

fn rd(b: &[u8], at: u64) -> Option<u32> {
    if at + 4 <= b.len() as u64 {
        let a = at as usize;
        Some(u32::from_le_bytes([b[a], b[a + 1], b[a + 2], b[a + 3]]))
    } else {
        None
    }
}

fn spec_recognised(b: &[u8]) -> bool {
    b.len() >= 12 && rd(b, 0) == Some(0xFB0B_D1E5)
}

#[derive(PartialEq, Clone, Copy)]
enum Spec {
    Err,
    Absent,
    Bytes(usize, usize), // start, len
}

/// what the format says about module `id` of the buffer `b` (header already valid)
fn spec_module(b: &[u8], id: u64) -> Spec {
    let mc = rd(b, 4).unwrap() as u64;
    if id >= mc {
        return Spec::Err;
    }
    let eo = 12 + 8 * id;
    let (off, len) = match (rd(b, eo), rd(b, eo + 4)) {
        (Some(o), Some(l)) => (o as u64, l as u64),
        _ => return Spec::Err,
    };
    if off == 0 && len == 0 {
        return Spec::Absent;
    }
    if len == 0 {
        return Spec::Err;
    }
    let start = 12 + 8 * mc + off;
    let n = len - 1; // trailing NUL dropped
    let k = b.len() as u64;
    if start < k && n <= k - start {
        Spec::Bytes(start as usize, n as usize)
    } else {
        Spec::Err
    }
}

fn spec_startup(b: &[u8]) -> Spec {
    let mc = rd(b, 4).unwrap() as u64;
    let scs = rd(b, 8).unwrap() as u64;
    let sco = 12 + 8 * mc;
    let k = b.len() as u64;
    if sco < k && scs <= k - sco {
        Spec::Bytes(sco as usize, scs as usize)
    } else {
        Spec::Err
    }
}

fn slice_is(b: &[u8], s: &[u8], start: usize, len: usize) -> bool {
    s.as_ptr() as usize == b.as_ptr() as usize + start && s.len() == len
}

fn c20_any_body<const K: usize>() {
    let b: [u8; K] = kani::any();
    let rec = is_ram_bundle_slice(&b);
    assert!(rec == spec_recognised(&b), "C20/recognised-iff-complete-header-with-magic");
    let parsed = RamBundle::parse_indexed_from_slice(&b);
    assert!(parsed.is_ok() == rec, "C20/parse-ok-iff-recognised");
    if let Ok(ref rb) = parsed {
        assert!(rb.module_count() as u64 == rd(&b, 4).unwrap() as u64, "C20/module-count");
        assert!(rb.bundle_type() == RamBundleType::Indexed, "C20/bundle-type");
        let id: usize = kani::any();
        let got = rb.get_module(id);
        let want = spec_module(&b, id as u64);
        match (&got, want) {
            (Err(_), Spec::Err) => {}
            (Ok(None), Spec::Absent) => {}
            (Ok(Some(m)), Spec::Bytes(s, n)) => {
                assert!(m.id() == id, "C20/module-id");
                assert!(slice_is(&b, m.data(), s, n), "C20/module-bytes-without-trailing-nul");
            }
            _ => assert!(false, "C20/get-module-matches-format"),
        }
        let sc = rb.startup_code();
        let empty_startup_at_end = rd(&b, 8) == Some(0) && 12 + 8 * (rd(&b, 4).unwrap() as u64) == K as u64;
        match (&sc, spec_startup(&b)) {
            (Err(_), Spec::Err) => {}
            // zero-length startup code exactly at the end of the buffer: the property only
            // speaks of non-empty startup code; an empty slice is accepted as well
            (Ok(s), Spec::Err) if empty_startup_at_end && s.is_empty() => {}
            (Ok(s), Spec::Bytes(st, n)) => assert!(slice_is(&b, s, st, n), "C20/startup-code-bytes"),
            _ => assert!(false, "C20/startup-code-matches-format"),
        }
        if K >= 28 {
            kani::cover!(matches!(want, Spec::Bytes(_, n) if n >= 1), "present module with data");
            kani::cover!(want == Spec::Absent, "empty table slot");
            kani::cover!(want == Spec::Err && (id as u64) < rd(&b, 4).unwrap() as u64, "corrupt entry refused");
            kani::cover!(matches!(spec_startup(&b), Spec::Bytes(_, n) if n >= 1), "startup code present");
        }
        if K >= 20 {
            kani::cover!(rd(&b, 4).unwrap() > 1 << 31, "module count near 2^32");
        }
        forget(got);
        forget(sc);
    }
    if K >= 12 {
        kani::cover!(rec, "recognised");
        kani::cover!(!rec, "wrong magic");
    }
    forget(parsed);
}

macro_rules! c20_any {
    ($name:ident, $k:literal, $u:literal) => {
        #[kani::proof]
        #[kani::unwind($u)]
        fn $name() {
            c20_any_body::<$k>()
        }
    };
}
c20_any!(c20_any_n0, 0, 4);
c20_any!(c20_any_n4, 4, 8);
c20_any!(c20_any_n11, 11, 14);
c20_any!(c20_any_n12, 12, 14);
c20_any!(c20_any_n20, 20, 14);
c20_any!(c20_any_n28, 28, 14);
c20_any!(c20_any_n36, 36, 14);
c20_any!(c20_any_n44, 44, 14);

// C20: the module iterator yields exactly what get_module's format says for ids
// 0..module_count in increasing order, skipping empty slots (any bytes, count <= 3).
fn c20_iter_body<const K: usize, const M: u32>() {
    let mut b: [u8; K] = kani::any();
    // concrete header prefix: magic and module count M; everything else symbolic
    let magic = 0xFB0B_D1E5u32.to_le_bytes();
    let mcb = M.to_le_bytes();
    let mut i = 0;
    while i < 4 {
        b[i] = magic[i];
        b[4 + i] = mcb[i];
        i += 1;
    }
    let mc = M;
    let parsed = RamBundle::parse_indexed_from_slice(&b);
    assert!(parsed.is_ok(), "C20/parse-ok-iff-recognised");
    if let Ok(ref rb) = parsed {
        let mut it = rb.iter_modules();
        let mut id = 0u64;
        let mut yielded = 0u32;
        let mut refused = 0u32;
        while id < mc as u64 {
            let want = spec_module(&b, id);
            if want != Spec::Absent {
                let got = it.next();
                match (&got, want) {
                    (Some(Err(_)), Spec::Err) => {
                        refused += 1;
                    }
                    (Some(Ok(m)), Spec::Bytes(s, n)) => {
                        assert!(m.id() as u64 == id, "C20/iterator-ids-increasing");
                        assert!(slice_is(&b, m.data(), s, n), "C20/iterator-module-bytes");
                        yielded += 1;
                    }
                    _ => assert!(false, "C20/iterator-yields-present-modules-in-order"),
                }
                forget(got);
            }
            id += 1;
        }
        let end = it.next();
        assert!(end.is_none(), "C20/iterator-ends-after-last-id");
        kani::cover!(yielded == M - 1 && refused == 0, "all but one slot present");
        kani::cover!(yielded == 0 && refused == 0, "only empty slots");
        kani::cover!(refused >= 1, "a corrupt entry is reported as an error item");
        forget(end);
    }
    forget(parsed);
}

#[kani::proof]
#[kani::unwind(8)]
fn c20_iter_m2() {
    c20_iter_body::<36, 2>()
}

#[kani::proof]
#[kani::unwind(8)]
fn c20_iter_m3() {
    c20_iter_body::<44, 3>()
}

// Kani harnesses for src/hermes.rs (child module `verif_h_fm` of `crate::hermes`).
// C14: the per-mapping body of the function-map decoder, lifted from decode_hermes on
// every run; built in its own scratch copy.
use super::*;
use crate::vlq::verif_h::{ref_parse, ST_OK};
use std::mem::forget;

// ---------------------------------------------------------------------------
// Lifted body of `for mapping in line_mapping.split(',')` of decode_hermes.
#[derive(Clone, Copy)]
struct FmState {
    column: u32,
    name_index: u32,
    line: u32,
}

#[allow(unused_assignments, unused_mut, unreachable_code, clippy::never_loop)]
fn fm_step(mapping: &str, st: &mut FmState, mappings: &mut Vec<HermesScopeOffset>) -> Option<()> {
    let mut column = st.column;
    let mut name_index = st.name_index;
    let mut line = st.line;
    // `nums` is a scratch buffer carried across iterations (and, in decode_hermes, across
    // sources): whatever an earlier iteration left in it must not matter
    let mut nums: Vec<i64> = Vec::with_capacity(16);
    let residue: u8 = kani::any();
    if residue >= 1 {
        nums.push(kani::any());
    }
    if residue >= 2 {
        nums.push(kani::any());
    }
    for _once in 0..1 {
        /*@LIFT hermes_mapping_body@*/
    }
    st.column = column;
    st.name_index = name_index;
    st.line = line;
    forget(nums);
    Some(())
}

fn c14_fm_body<const N: usize>() {
    let t: [u8; N] = kani::any();
    let mut i = 0;
    while i < N {
        kani::assume(t[i] < 0x80 && t[i] != b',' && t[i] != b';');
        i += 1;
    }
    let st0 = FmState { column: kani::any(), name_index: kani::any(), line: kani::any() };
    let mut st = st0;
    let mut out: Vec<HermesScopeOffset> = Vec::with_capacity(4);
    let r = ref_parse(&t);
    let res = fm_step(unsafe { std::str::from_utf8_unchecked(&t) }, &mut st, &mut out);
    if r.status != ST_OK {
        assert!(res.is_none(), "C14/unparsable-mapping-disables-this-function-map");
    } else if r.n <= 3 && r.exact[0] && r.exact[1] && r.exact[2] {
        let v0 = r.vals[0];
        let v1 = if r.n >= 2 { r.vals[1] } else { 0 };
        let v2 = if r.n >= 3 { r.vals[2] } else { 0 };
        let c = st0.column as i64 + v0;
        let ni = st0.name_index as i64 + v1;
        let l = st0.line as i64 + v2;
        let lim = 1i64 << 32;
        if c >= 0 && c < lim && ni >= 0 && ni < lim && l >= 0 && l < lim {
            assert!(res.is_some(), "C14/well-formed-mapping-accepted");
            assert!(out.len() == 1, "C14/one-entry-per-mapping");
            let e = &out[0];
            assert!(e.column as i64 == c && st.column as i64 == c, "C14/column-is-first-field-delta");
            assert!(e.name_index as i64 == ni && st.name_index as i64 == ni, "C14/name-index-is-second-field-delta-or-unchanged");
            assert!(e.line as i64 == l && st.line as i64 == l, "C14/line-is-third-field-delta-or-unchanged");
            kani::cover!(r.n == 1, "only the column field");
            kani::cover!(r.n == 3 && v2 > 0, "three fields, line advances");
            kani::cover!(r.n == 2 && v1 < 0, "negative name-index delta");
        }
    }
    forget(out);
}

macro_rules! c14_fm {
    ($name:ident, $n:literal, $u:literal) => {
        #[kani::proof]
        #[kani::unwind($u)]
        #[kani::stub(std::vec::Vec::push, crate::vstubs::vec_push)]
        fn $name() {
            c14_fm_body::<$n>()
        }
    };
}
c14_fm!(c14_fm_len1, 1, 4);
c14_fm!(c14_fm_len2, 2, 5);
c14_fm!(c14_fm_len3, 3, 6);
c14_fm!(c14_fm_len5, 5, 8);
c14_fm!(c14_fm_len9, 9, 12);


// Kani harnesses for src/decoder.rs (child module `verif_h_line` of `crate::decoder`).
use super::verif_h::{as_str, LenOnly, MockRmi};
use super::*;
use std::mem::forget;

// ---------------------------------------------------------------------------
// C02 / C07: the body of the per-LINE loop of decode_regular (per-line column reset,
// the real `line.split(',').enumerate()` header, empty-segment skipping), lifted from
// /repo, on tiny symbolic lines made of ',' and single-digit 1-field segments.
// `decode_rmi` is shadowed by a mock reading one base64 digit (the real one is decided
// by c07_rmi_decode_*).
#[allow(unused_assignments, unused_mut, unused_variables, unreachable_code, clippy::never_loop)]
fn line_step(line: &str, rmi_str: &str, dst_line: usize, prev_dst_col: u32, tokens: &mut Vec<RawToken>) -> Result<()> {
    fn decode_rmi(rmi_str: &str, val: &mut MockRmi) -> Result<()> {
        let b = rmi_str.as_bytes();
        val.len = 6 * b.len();
        val.bits = 0;
        if b.len() == 1 {
            let d = crate::vlq::verif_h::ref_b64(b[0]);
            if d < 0 {
                return Err(Error::InvalidBase64(b[0] as char));
            }
            val.bits = d as u8;
        }
        Ok(())
    }
    let mut dst_col = prev_dst_col; // whatever the previous line left behind
    let mut src_id = 0;
    let mut src_line = 0;
    let mut src_col = 0;
    let mut name_id = 0;
    let names = LenOnly(0);
    let sources = LenOnly(0);
    let mut nums: Vec<i64> = Vec::with_capacity(16);
    // the bit vector is reused from line to line: whatever the previous line left in it
    // must not matter
    let mut rmi = MockRmi { bits: kani::any(), len: kani::any() };
    kani::assume(rmi.len <= 8);
    for _once in 0..1 {
        /*@LIFT decoder_line_body@*/
    }
    forget(nums);
    Ok(())
}

fn c02_line_body<const N: usize>() {
    let ln: [u8; N] = kani::any();
    let mut i = 0;
    while i < N {
        let d = crate::vlq::verif_h::ref_b64(ln[i]);
        kani::assume(ln[i] == b',' || (d >= 0 && d < 32));
        i += 1;
    }
    let rm: [u8; 1] = kani::any();
    kani::assume(crate::vlq::verif_h::ref_b64(rm[0]) >= 0);
    let has_rm: bool = kani::any();
    let dst_line: u32 = kani::any();
    let prev_col: u32 = kani::any();
    let mut tokens: Vec<RawToken> = Vec::with_capacity(8);
    let rm_s = if has_rm { as_str(&rm) } else { "" };
    let res = line_step(as_str(&ln), rm_s, dst_line as usize, prev_col, &mut tokens);
    let ok = res.is_ok();
    forget(res);
    // independent reading of one line: segments are separated by ','; an empty segment is
    // skipped but still counts for the index within the line; a single digit is a 1-field
    // segment (column delta); two or three digits in a row are 2 or 3 fields: malformed
    let mut exp = [(0u32, false); N];
    let mut ne = 0usize;
    let mut bad = false;
    let mut col = 0i64;
    let mut seg_index = 0usize;
    let mut seg_len = 0usize;
    let mut i = 0;
    while i < N {
        if ln[i] == b',' {
            seg_index += 1;
            seg_len = 0;
        } else {
            seg_len += 1;
            if seg_len >= 2 {
                bad = true;
            } else {
                let d = crate::vlq::verif_h::ref_b64(ln[i]) as i64;
                col += if d & 1 == 1 { -(d >> 1) } else { d >> 1 };
                if col < 0 {
                    bad = true;
                }
                let flag = has_rm && seg_index < 6 && (crate::vlq::verif_h::ref_b64(rm[0]) >> seg_index) & 1 == 1;
                exp[ne] = (col as u32, flag);
                ne += 1;
            }
        }
        i += 1;
    }
    if !bad {
        assert!(ok, "C02/line-well-formed-line-decodes");
        assert!(tokens.len() == ne, "C02/line-one-token-per-non-empty-segment");
        let mut k = 0;
        while k < ne {
            if k < tokens.len() {
                assert!(tokens[k].dst_line == dst_line, "C02/line-tokens-carry-the-line-number");
                assert!(tokens[k].dst_col == exp[k].0, "C02/line-generated-column-restarts-at-zero-and-accumulates");
                assert!(tokens[k].src_id == !0 && tokens[k].name_id == !0, "C02/line-one-field-no-source-no-name");
                assert!(tokens[k].is_range == exp[k].1, "C07/line-range-flag-by-index-within-line");
            }
            k += 1;
        }
    }
    if N >= 2 {
        kani::cover!(!bad && ne >= 1 && ln[0] == b',' && prev_col > 0, "line starts with an empty segment after a non-zero column");
        kani::cover!(!bad && ne == 2, "two tokens on the line");
        kani::cover!(!bad && ne >= 1 && exp[ne - 1].1 && ln[0] == b',', "range flag counted past an empty segment");
        kani::cover!(bad && !ok, "malformed line rejected");
    }
    forget(tokens);
}

macro_rules! c02_line {
    ($name:ident, $n:literal, $u:literal) => {
        #[kani::proof]
        #[kani::unwind($u)]
        #[kani::stub(std::vec::Vec::push, crate::vstubs::vec_push)]
        fn $name() {
            c02_line_body::<$n>()
        }
    };
}
c02_line!(c02_line_n1, 1, 5);
c02_line!(c02_line_n2, 2, 6);
c02_line!(c02_line_n3, 3, 7);
c02_line!(c02_line_n4, 4, 8);


// Kani harnesses for src/encoder.rs (child module of `crate::encoder`).
// Property C03: the mappings string is read back by an independent v3 reader as
// exactly the map's tokens; raw-map fields carry the map's values / are absent.
use super::*;
use crate::types::RawToken;
use std::collections::BTreeSet;
use std::mem::forget;
use std::sync::Arc;

fn ref_b64(b: u8) -> i32 {
    if b >= b'A' && b <= b'Z' {
        (b - b'A') as i32
    } else if b >= b'a' && b <= b'z' {
        (b - b'a') as i32 + 26
    } else if b >= b'0' && b <= b'9' {
        (b - b'0') as i32 + 52
    } else if b == b'+' {
        62
    } else if b == b'/' {
        63
    } else {
        -1
    }
}

#[derive(Clone, Copy, PartialEq)]
struct RefTok {
    dst_line: i64,
    dst_col: i64,
    has_src: bool,
    src_id: i64,
    src_line: i64,
    src_col: i64,
    has_name: bool,
    name_id: i64,
}

const REF_TOKS: usize = 4;

struct RefRead {
    ok: bool,
    n: usize,
    toks: [RefTok; REF_TOKS],
}

/// Independent reader of the v3 "mappings" grammar (flat loop over bytes):
/// ';' starts a new generated line and resets the generated column, ',' separates
/// segments, a segment is 1, 4 or 5 base64-VLQ fields; field 0 accumulates per
/// line, fields 1..4 accumulate over the whole string.
fn ref_read_mappings(bytes: &[u8]) -> RefRead {
    let blank = RefTok { dst_line: 0, dst_col: 0, has_src: false, src_id: 0, src_line: 0, src_col: 0, has_name: false, name_id: 0 };
    let mut out = RefRead { ok: true, n: 0, toks: [blank; REF_TOKS] };
    let mut line: i64 = 0;
    let mut col: i64 = 0;
    let mut run = [0i64; 4]; // src_id, src_line, src_col, name_id
    let mut fields = [0i64; 5];
    let mut nf: usize = 0; // complete fields in the current segment
    let mut acc: u64 = 0;
    let mut shift: u32 = 0;
    let mut in_value = false;
    let len = bytes.len();
    let mut i = 0;
    while i <= len {
        let b = if i < len { bytes[i] } else { b',' };
        if b == b',' || b == b';' {
            if in_value {
                out.ok = false; // unterminated value
                return out;
            }
            if nf != 0 {
                if nf != 1 && nf != 4 && nf != 5 {
                    out.ok = false;
                    return out;
                }
                col += fields[0];
                let mut t = blank;
                t.dst_line = line;
                t.dst_col = col;
                if nf >= 4 {
                    run[0] += fields[1];
                    run[1] += fields[2];
                    run[2] += fields[3];
                    t.has_src = true;
                    t.src_id = run[0];
                    t.src_line = run[1];
                    t.src_col = run[2];
                }
                if nf == 5 {
                    run[3] += fields[4];
                    t.has_name = true;
                    t.name_id = run[3];
                }
                if out.n >= REF_TOKS {
                    out.ok = false;
                    return out;
                }
                out.toks[out.n] = t;
                out.n += 1;
                nf = 0;
            }
            if b == b';' && i < len {
                line += 1;
                col = 0;
            }
        } else {
            let d = ref_b64(b);
            if d < 0 || shift > 35 || nf >= 5 {
                out.ok = false;
                return out;
            }
            acc |= ((d & 31) as u64) << shift;
            shift += 5;
            in_value = true;
            if d < 32 {
                let mag = (acc >> 1) as i64;
                fields[nf] = if acc & 1 == 1 { -mag } else { mag };
                nf += 1;
                acc = 0;
                shift = 0;
                in_value = false;
            }
        }
        i += 1;
    }
    out
}

fn mk_map(tokens: Vec<RawToken>, n_sources: usize, n_names: usize) -> SourceMap {
    let mut sources: Vec<Arc<str>> = Vec::with_capacity(3);
    let mut names: Vec<Arc<str>> = Vec::with_capacity(3);
    if n_sources > 0 {
        sources.push("a".into());
    }
    if n_sources > 1 {
        sources.push("b".into());
    }
    if n_names > 0 {
        names.push("x".into());
    }
    if n_names > 1 {
        names.push("y".into());
    }
    SourceMap {
        file: None,
        tokens,
        names,
        source_root: None,
        sources,
        sources_prefixed: None,
        sources_content: Vec::new(),
        ignore_list: BTreeSet::new(),
        debug_id: None,
    }
}

/// a well-formed token (C01/C03 quantifier): no source and no name, or an in-range
/// source (of 2) and optionally an in-range name (of 2); positions below `lim`,
/// generated line at most 2.
fn wf_token(lim: u64) -> RawToken {
    let t = RawToken {
        dst_line: kani::any(),
        dst_col: kani::any(),
        src_line: kani::any(),
        src_col: kani::any(),
        src_id: kani::any(),
        name_id: kani::any(),
        is_range: false,
    };
    kani::assume(t.dst_line <= 2);
    kani::assume((t.dst_col as u64) < lim && (t.src_line as u64) < lim && (t.src_col as u64) < lim);
    kani::assume(t.src_id == !0 || t.src_id < 2);
    kani::assume(t.name_id == !0 || t.name_id < 2);
    kani::assume(t.src_id != !0 || t.name_id == !0);
    t
}

fn expect_of(t: &RawToken) -> RefTok {
    let has_src = t.src_id != !0;
    let has_name = has_src && t.name_id != !0;
    RefTok {
        dst_line: t.dst_line as i64,
        dst_col: t.dst_col as i64,
        has_src,
        src_id: if has_src { t.src_id as i64 } else { 0 },
        src_line: if has_src { t.src_line as i64 } else { 0 },
        src_col: if has_src { t.src_col as i64 } else { 0 },
        has_name,
        name_id: if has_name { t.name_id as i64 } else { 0 },
    }
}

fn c03_ser_body<const N: usize, const MAXLEN: usize>(lim: u64) {
    let mut toks = [wf_token(lim); N];
    let mut i = 1;
    while i < N {
        toks[i] = wf_token(lim);
        kani::assume((toks[i - 1].dst_line, toks[i - 1].dst_col) <= (toks[i].dst_line, toks[i].dst_col));
        i += 1;
    }
    let mut v = Vec::with_capacity(N + 1);
    let mut i = 0;
    while i < N {
        v.push(toks[i]);
        i += 1;
    }
    let sm = mk_map(v, 2, 2);
    let s = serialize_mappings(&sm);
    let len = s.len();
    assert!(len <= MAXLEN, "verif: harness bound MAXLEN too small");
    let mut buf = [0u8; MAXLEN];
    let mut i = 0;
    while i < MAXLEN {
        if i < len {
            buf[i] = s.as_bytes()[i];
        }
        i += 1;
    }
    let r = ref_read_mappings(&buf[..len]);
    assert!(r.ok, "C03/mappings-well-formed-v3");
    // expected: the map's tokens minus exact consecutive duplicates
    let mut exp = [expect_of(&toks[0]); N];
    let mut ne = 0;
    let mut i = 0;
    while i < N {
        if !(i > 0 && toks[i] == toks[i - 1]) {
            exp[ne] = expect_of(&toks[i]);
            ne += 1;
        }
        i += 1;
    }
    assert!(r.n == ne, "C03/mappings-token-count");
    let mut i = 0;
    while i < ne && i < REF_TOKS {
        assert!(r.toks[i].dst_line == exp[i].dst_line, "C03/mappings-generated-line");
        assert!(r.toks[i].dst_col == exp[i].dst_col, "C03/mappings-generated-column");
        assert!(r.toks[i].has_src == exp[i].has_src, "C03/mappings-source-presence");
        assert!(r.toks[i].src_id == exp[i].src_id, "C03/mappings-source-index");
        assert!(r.toks[i].src_line == exp[i].src_line && r.toks[i].src_col == exp[i].src_col, "C03/mappings-original-position");
        assert!(r.toks[i].has_name == exp[i].has_name && r.toks[i].name_id == exp[i].name_id, "C03/mappings-name-index");
        i += 1;
    }
    if N >= 2 {
        kani::cover!(ne < N, "consecutive duplicate dropped");
        kani::cover!(toks[1].dst_line == 2 && toks[0].dst_line == 0, "empty line between tokens");
        kani::cover!(toks[1].src_id != !0 && toks[0].src_id != !0 && toks[1].src_col < toks[0].src_col, "negative original-column delta");
        kani::cover!(toks[0].src_id == !0 && toks[1].name_id != !0, "1-field then 5-field segment");
    }
    kani::cover!(toks[0].dst_line == 2, "map starts on line 2");
    forget(s);
    forget(sm);
}

macro_rules! c03_ser {
    ($name:ident, $n:literal, $maxlen:literal, $lim:expr, $u:literal, $newstub:path) => {
        #[kani::proof]
        #[kani::unwind($u)]
        #[kani::stub(std::string::String::new, $newstub)]
        #[kani::stub(std::string::String::push, crate::vstubs::string_push)]
        fn $name() {
            c03_ser_body::<$n, $maxlen>($lim)
        }
    };
}
// fields < 16: every delta is a single digit => at most 5 chars per token
c03_ser!(c03_ser_n1_small, 1, 8, 16, 11, crate::vstubs::string_new);
c03_ser!(c03_ser_n2_small, 2, 14, 16, 17, crate::vstubs::string_new);
c03_ser!(c03_ser_n3_small, 3, 20, 16, 23, crate::vstubs::string_new);
// fields < 2^10: deltas up to 3 digits
c03_ser!(c03_ser_n2_mid, 2, 30, 1024, 33, crate::vstubs::string_new);
c03_ser!(c03_ser_n3_mid, 3, 44, 1024, 47, crate::vstubs::string_new);
// full 32-bit fields: deltas up to 7 digits
c03_ser!(c03_ser_n1_full, 1, 32, 1u64 << 32, 35, crate::vstubs::string_new);
c03_ser!(c03_ser_n2_full, 2, 62, 1u64 << 32, 65, crate::vstubs::string_new_big);

// C03: encode_vlq_diff(a, b) for all u32 a, b is the standard encoding of a - b.
#[kani::proof]
#[kani::unwind(10)]
#[kani::stub(std::string::String::new, crate::vstubs::string_new)]
#[kani::stub(std::string::String::push, crate::vstubs::string_push)]
fn c03_diff_full() {
    let a: u32 = kani::any();
    let b: u32 = kani::any();
    let mut s = String::new();
    encode_vlq_diff(&mut s, a, b);
    let len = s.len();
    assert!(len >= 1 && len <= 7, "C03/diff-length");
    let mut acc: u64 = 0;
    let mut i = 0;
    while i < len {
        let d = ref_b64(s.as_bytes()[i]);
        assert!(d >= 0, "C03/diff-alphabet");
        assert!((d >= 32) == (i + 1 < len), "C03/diff-continuation");
        acc |= ((d & 31) as u64) << (5 * i as u32);
        i += 1;
    }
    let mag = (acc >> 1) as i64;
    let v = if acc & 1 == 1 { -mag } else { mag };
    assert!(v == a as i64 - b as i64, "C03/diff-value");
    kani::cover!(a == 0 && b == u32::MAX, "most negative difference");
    kani::cover!(a == u32::MAX && b == 0, "most positive difference");
    forget(s);
}

// ---------------------------------------------------------------------------
// C03, structural half with full-width fields: `encode_vlq_diff(out, a, b)` is
// replaced by a recorder that appends the 9-byte record [0x01, a LE, b LE].
// A positional reader then checks the v3 delta discipline directly: every field
// is emitted relative to exactly the value a conforming decoder holds at that
// point (b == decoder state) and moves it to the token's value (a == field),
// generated column restarts per line, separators and field counts are right.
// Together with c03_diff_full (the real encode_vlq_diff writes the standard VLQ of
// a - b for all u32 a, b) this gives the reader-level statement for 32-bit fields.
pub(crate) fn diff_record(out: &mut String, a: u32, b: u32) {
    let v = unsafe { out.as_mut_vec() };
    let len = v.len();
    assert!(len + 9 <= v.capacity(), "verif: capacity bound exceeded");
    unsafe {
        let p = v.as_mut_ptr().add(len);
        *p = 1;
        let ab = a.to_le_bytes();
        let bb = b.to_le_bytes();
        let mut k = 0;
        while k < 4 {
            *p.add(1 + k) = ab[k];
            *p.add(5 + k) = bb[k];
            k += 1;
        }
        v.set_len(len + 9);
    }
}

fn rd_u32(b: &[u8], at: usize) -> u32 {
    u32::from_le_bytes([b[at], b[at + 1], b[at + 2], b[at + 3]])
}

fn c03_struct_body<const N: usize, const MAXLEN: usize>() {
    let lim = 1u64 << 32;
    let mut toks = [wf_token(lim); N];
    let mut i = 1;
    while i < N {
        toks[i] = wf_token(lim);
        kani::assume((toks[i - 1].dst_line, toks[i - 1].dst_col) <= (toks[i].dst_line, toks[i].dst_col));
        i += 1;
    }
    let mut v = Vec::with_capacity(N + 1);
    let mut i = 0;
    while i < N {
        v.push(toks[i]);
        i += 1;
    }
    let sm = mk_map(v, 2, 2);
    let s = serialize_mappings(&sm);
    let bytes = s.as_bytes();
    let len = bytes.len();
    assert!(len <= MAXLEN, "verif: harness bound MAXLEN too small");
    // decoder state
    let mut line: u32 = 0;
    let mut st = [0u32; 5]; // col, src_id, src_line, src_col, name_id
    let mut nf = 0usize;
    let mut ntok = 0usize;
    let mut got = [expect_of(&toks[0]); N];
    let mut pos = 0usize;
    let mut steps = 0usize;
    let mut ended = false;
    // one iteration per item (record or separator): at most 5 records + 1 separator
    // per token, two extra ';' and the end marker
    while steps < 6 * N + 4 {
        let at_end = pos >= len;
        let b = if at_end { b',' } else { bytes[pos] };
        if b == 1 {
            assert!(pos + 9 <= len, "C03/struct-record-complete");
            assert!(nf < 5, "C03/struct-at-most-five-fields");
            let a = rd_u32(bytes, pos + 1);
            let prev = rd_u32(bytes, pos + 5);
            assert!(prev == st[nf], "C03/struct-delta-relative-to-decoder-state");
            st[nf] = a;
            nf += 1;
            pos += 9;
        } else {
            assert!(b == b',' || b == b';', "C03/struct-separator");
            if nf != 0 {
                assert!(nf == 1 || nf == 4 || nf == 5, "C03/struct-field-count");
                assert!(ntok < N, "C03/struct-no-extra-segments");
                let mut t = expect_of(&toks[0]);
                t.dst_line = line as i64;
                t.dst_col = st[0] as i64;
                t.has_src = nf >= 4;
                t.src_id = if nf >= 4 { st[1] as i64 } else { 0 };
                t.src_line = if nf >= 4 { st[2] as i64 } else { 0 };
                t.src_col = if nf >= 4 { st[3] as i64 } else { 0 };
                t.has_name = nf == 5;
                t.name_id = if nf == 5 { st[4] as i64 } else { 0 };
                got[ntok] = t;
                ntok += 1;
                nf = 0;
            } else {
                assert!(at_end || b == b';', "C03/struct-no-empty-segment");
            }
            if at_end {
                ended = true;
                break;
            }
            if b == b';' {
                line += 1;
                st[0] = 0;
            }
            pos += 1;
        }
        steps += 1;
    }
    assert!(ended, "verif: harness bound on the number of items too small");
    // expected: tokens minus exact consecutive duplicates (either reading of C03 is
    // accepted: duplicates kept or dropped)
    let mut ne = 0;
    let mut j = 0; // index into got
    let mut i = 0;
    let mut all = true;
    while i < N {
        let dup = i > 0 && toks[i] == toks[i - 1];
        if j < ntok && got[j] == expect_of(&toks[i]) && !(dup && ntok - j < N - i) {
            j += 1;
        } else if !dup {
            all = false;
        }
        if !dup {
            ne += 1;
        }
        i += 1;
    }
    assert!(all && j == ntok, "C03/struct-tokens-read-back");
    assert!(ntok >= ne, "C03/struct-token-count");
    if N >= 2 {
        kani::cover!(ntok < N, "consecutive duplicate dropped");
        kani::cover!(toks[1].dst_line == 2 && toks[0].dst_line == 0, "empty line between tokens");
        kani::cover!(toks[1].src_id != !0 && toks[0].src_id != !0 && toks[1].src_col < toks[0].src_col, "negative original-column delta");
        kani::cover!(toks[0].src_id == !0 && toks[1].name_id != !0, "1-field then 5-field segment");
        kani::cover!(toks[0].dst_col == u32::MAX, "column u32::MAX");
    }
    kani::cover!(toks[0].dst_line == 2, "map starts on line 2");
    forget(s);
    forget(sm);
}

macro_rules! c03_struct {
    ($name:ident, $n:literal, $maxlen:literal, $u:literal) => {
        #[kani::proof]
        #[kani::unwind($u)]
        #[kani::stub(std::string::String::new, crate::vstubs::string_new_big)]
        #[kani::stub(std::string::String::push, crate::vstubs::string_push)]
        #[kani::stub(crate::encoder::encode_vlq_diff, crate::encoder::verif_h::diff_record)]
        fn $name() {
            c03_struct_body::<$n, $maxlen>()
        }
    };
}
c03_struct!(c03_struct_n1, 1, 48, 12);
c03_struct!(c03_struct_n2, 2, 94, 18);
c03_struct!(c03_struct_n3, 3, 140, 24);
c03_struct!(c03_struct_n4, 4, 186, 30);

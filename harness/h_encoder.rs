// Kani harnesses for src/encoder.rs (child module of `crate::encoder`).
// Property C03: the mappings string is read back by an independent v3 reader as
// exactly the map's tokens; raw-map fields carry the map's values / are absent.
use super::*;
use crate::types::RawToken;
use std::collections::BTreeSet;
use std::mem::forget;
use std::sync::Arc;

fn ref_b64(b: u8) -> i32 {
    if b >= b'A' && b <= b'Z' {
        (b - b'A') as i32
    } else if b >= b'a' && b <= b'z' {
        (b - b'a') as i32 + 26
    } else if b >= b'0' && b <= b'9' {
        (b - b'0') as i32 + 52
    } else if b == b'+' {
        62
    } else if b == b'/' {
        63
    } else {
        -1
    }
}

#[derive(Clone, Copy, PartialEq)]
struct RefTok {
    dst_line: i64,
    dst_col: i64,
    has_src: bool,
    src_id: i64,
    src_line: i64,
    src_col: i64,
    has_name: bool,
    name_id: i64,
}

const REF_TOKS: usize = 4;

struct RefRead {
    ok: bool,
    n: usize,
    toks: [RefTok; REF_TOKS],
}

/// Independent reader of the v3 "mappings" grammar (flat loop over bytes):
/// ';' starts a new generated line and resets the generated column, ',' separates
/// segments, a segment is 1, 4 or 5 base64-VLQ fields; field 0 accumulates per
/// line, fields 1..4 accumulate over the whole string.
fn ref_read_mappings(bytes: &[u8]) -> RefRead {
    let blank = RefTok { dst_line: 0, dst_col: 0, has_src: false, src_id: 0, src_line: 0, src_col: 0, has_name: false, name_id: 0 };
    let mut out = RefRead { ok: true, n: 0, toks: [blank; REF_TOKS] };
    let mut line: i64 = 0;
    let mut col: i64 = 0;
    let mut run = [0i64; 4]; // src_id, src_line, src_col, name_id
    let mut fields = [0i64; 5];
    let mut nf: usize = 0; // complete fields in the current segment
    let mut acc: u64 = 0;
    let mut shift: u32 = 0;
    let mut in_value = false;
    let len = bytes.len();
    let mut i = 0;
    while i <= len {
        let b = if i < len { bytes[i] } else { b',' };
        if b == b',' || b == b';' {
            if in_value {
                out.ok = false; // unterminated value
                return out;
            }
            if nf != 0 {
                if nf != 1 && nf != 4 && nf != 5 {
                    out.ok = false;
                    return out;
                }
                col += fields[0];
                let mut t = blank;
                t.dst_line = line;
                t.dst_col = col;
                if nf >= 4 {
                    run[0] += fields[1];
                    run[1] += fields[2];
                    run[2] += fields[3];
                    t.has_src = true;
                    t.src_id = run[0];
                    t.src_line = run[1];
                    t.src_col = run[2];
                }
                if nf == 5 {
                    run[3] += fields[4];
                    t.has_name = true;
                    t.name_id = run[3];
                }
                if out.n >= REF_TOKS {
                    out.ok = false;
                    return out;
                }
                out.toks[out.n] = t;
                out.n += 1;
                nf = 0;
            }
            if b == b';' && i < len {
                line += 1;
                col = 0;
            }
        } else {
            let d = ref_b64(b);
            if d < 0 || shift > 35 || nf >= 5 {
                out.ok = false;
                return out;
            }
            acc |= ((d & 31) as u64) << shift;
            shift += 5;
            in_value = true;
            if d < 32 {
                let mag = (acc >> 1) as i64;
                fields[nf] = if acc & 1 == 1 { -mag } else { mag };
                nf += 1;
                acc = 0;
                shift = 0;
                in_value = false;
            }
        }
        i += 1;
    }
    out
}

fn mk_map(tokens: Vec<RawToken>, n_sources: usize, n_names: usize) -> SourceMap {
    let mut sources: Vec<Arc<str>> = Vec::with_capacity(3);
    let mut names: Vec<Arc<str>> = Vec::with_capacity(3);
    if n_sources > 0 {
        sources.push("a".into());
    }
    if n_sources > 1 {
        sources.push("b".into());
    }
    if n_names > 0 {
        names.push("x".into());
    }
    if n_names > 1 {
        names.push("y".into());
    }
    SourceMap {
        file: None,
        tokens,
        names,
        source_root: None,
        sources,
        sources_prefixed: None,
        sources_content: Vec::new(),
        ignore_list: BTreeSet::new(),
        debug_id: None,
    }
}

/// a well-formed token (C01/C03 quantifier): no source and no name, or an in-range
/// source (of 2) and optionally an in-range name (of 2); positions below `lim`,
/// generated line at most 2.
fn wf_token(lim: u64) -> RawToken {
    let t = RawToken {
        dst_line: kani::any(),
        dst_col: kani::any(),
        src_line: kani::any(),
        src_col: kani::any(),
        src_id: kani::any(),
        name_id: kani::any(),
        is_range: false,
    };
    kani::assume(t.dst_line <= 2);
    kani::assume((t.dst_col as u64) < lim && (t.src_line as u64) < lim && (t.src_col as u64) < lim);
    kani::assume(t.src_id == !0 || t.src_id < 2);
    kani::assume(t.name_id == !0 || t.name_id < 2);
    kani::assume(t.src_id != !0 || t.name_id == !0);
    t
}

fn expect_of(t: &RawToken) -> RefTok {
    let has_src = t.src_id != !0;
    let has_name = has_src && t.name_id != !0;
    RefTok {
        dst_line: t.dst_line as i64,
        dst_col: t.dst_col as i64,
        has_src,
        src_id: if has_src { t.src_id as i64 } else { 0 },
        src_line: if has_src { t.src_line as i64 } else { 0 },
        src_col: if has_src { t.src_col as i64 } else { 0 },
        has_name,
        name_id: if has_name { t.name_id as i64 } else { 0 },
    }
}

fn c03_ser_body<const N: usize, const MAXLEN: usize>(lim: u64) {
    let mut toks = [wf_token(lim); N];
    let mut i = 1;
    while i < N {
        toks[i] = wf_token(lim);
        kani::assume((toks[i - 1].dst_line, toks[i - 1].dst_col) <= (toks[i].dst_line, toks[i].dst_col));
        i += 1;
    }
    let mut v = Vec::with_capacity(N + 1);
    let mut i = 0;
    while i < N {
        v.push(toks[i]);
        i += 1;
    }
    let sm = mk_map(v, 2, 2);
    let s = serialize_mappings(&sm);
    let len = s.len();
    assert!(len <= MAXLEN, "verif: harness bound MAXLEN too small");
    let mut buf = [0u8; MAXLEN];
    let mut i = 0;
    while i < MAXLEN {
        if i < len {
            buf[i] = s.as_bytes()[i];
        }
        i += 1;
    }
    let r = ref_read_mappings(&buf[..len]);
    assert!(r.ok, "C03/mappings-well-formed-v3");
    // expected: the map's tokens minus exact consecutive duplicates
    let mut exp = [expect_of(&toks[0]); N];
    let mut ne = 0;
    let mut i = 0;
    while i < N {
        if !(i > 0 && toks[i] == toks[i - 1]) {
            exp[ne] = expect_of(&toks[i]);
            ne += 1;
        }
        i += 1;
    }
    assert!(r.n == ne, "C03/mappings-token-count");
    let mut i = 0;
    while i < ne && i < REF_TOKS {
        assert!(r.toks[i].dst_line == exp[i].dst_line, "C03/mappings-generated-line");
        assert!(r.toks[i].dst_col == exp[i].dst_col, "C03/mappings-generated-column");
        assert!(r.toks[i].has_src == exp[i].has_src, "C03/mappings-source-presence");
        assert!(r.toks[i].src_id == exp[i].src_id, "C03/mappings-source-index");
        assert!(r.toks[i].src_line == exp[i].src_line && r.toks[i].src_col == exp[i].src_col, "C03/mappings-original-position");
        assert!(r.toks[i].has_name == exp[i].has_name && r.toks[i].name_id == exp[i].name_id, "C03/mappings-name-index");
        i += 1;
    }
    if N >= 2 {
        kani::cover!(ne < N, "consecutive duplicate dropped");
        kani::cover!(toks[1].dst_line == 2 && toks[0].dst_line == 0, "empty line between tokens");
        kani::cover!(toks[1].src_id != !0 && toks[0].src_id != !0 && toks[1].src_col < toks[0].src_col, "negative original-column delta");
        kani::cover!(toks[0].src_id == !0 && toks[1].name_id != !0, "1-field then 5-field segment");
    }
    kani::cover!(toks[0].dst_line == 2, "map starts on line 2");
    forget(s);
    forget(sm);
}

macro_rules! c03_ser {
    ($name:ident, $n:literal, $maxlen:literal, $lim:expr, $u:literal, $newstub:path) => {
        #[kani::proof]
        #[kani::unwind($u)]
        #[kani::stub(std::string::String::new, $newstub)]
        #[kani::stub(std::string::String::push, crate::vstubs::string_push)]
        fn $name() {
            c03_ser_body::<$n, $maxlen>($lim)
        }
    };
}
// fields < 16: every delta is a single digit => at most 5 chars per token
c03_ser!(c03_ser_n1_small, 1, 8, 16, 11, crate::vstubs::string_new);
c03_ser!(c03_ser_n2_small, 2, 14, 16, 17, crate::vstubs::string_new);
c03_ser!(c03_ser_n3_small, 3, 20, 16, 23, crate::vstubs::string_new);
// fields < 2^10: deltas up to 3 digits
c03_ser!(c03_ser_n2_mid, 2, 30, 1024, 33, crate::vstubs::string_new);
c03_ser!(c03_ser_n3_mid, 3, 44, 1024, 47, crate::vstubs::string_new);
// full 32-bit fields: deltas up to 7 digits
c03_ser!(c03_ser_n1_full, 1, 32, 1u64 << 32, 35, crate::vstubs::string_new);
c03_ser!(c03_ser_n2_full, 2, 62, 1u64 << 32, 65, crate::vstubs::string_new_big);

// C03: encode_vlq_diff(a, b) for all u32 a, b is the standard encoding of a - b.
#[kani::proof]
#[kani::unwind(10)]
#[kani::stub(std::string::String::new, crate::vstubs::string_new)]
#[kani::stub(std::string::String::push, crate::vstubs::string_push)]
fn c03_diff_full() {
    let a: u32 = kani::any();
    let b: u32 = kani::any();
    let mut s = String::new();
    encode_vlq_diff(&mut s, a, b);
    let len = s.len();
    assert!(len >= 1 && len <= 7, "C03/diff-length");
    let mut acc: u64 = 0;
    let mut i = 0;
    while i < len {
        let d = ref_b64(s.as_bytes()[i]);
        assert!(d >= 0, "C03/diff-alphabet");
        assert!((d >= 32) == (i + 1 < len), "C03/diff-continuation");
        acc |= ((d & 31) as u64) << (5 * i as u32);
        i += 1;
    }
    let mag = (acc >> 1) as i64;
    let v = if acc & 1 == 1 { -mag } else { mag };
    assert!(v == a as i64 - b as i64, "C03/diff-value");
    kani::cover!(a == 0 && b == u32::MAX, "most negative difference");
    kani::cover!(a == u32::MAX && b == 0, "most positive difference");
    forget(s);
}

// ---------------------------------------------------------------------------
// C03, structural half with full-width fields: `encode_vlq_diff(out, a, b)` is
// replaced by a recorder that appends the 9-byte record [0x01, a LE, b LE].
// A positional reader then checks the v3 delta discipline directly: every field
// is emitted relative to exactly the value a conforming decoder holds at that
// point (b == decoder state) and moves it to the token's value (a == field),
// generated column restarts per line, separators and field counts are right.
// Together with c03_diff_full (the real encode_vlq_diff writes the standard VLQ of
// a - b for all u32 a, b) this gives the reader-level statement for 32-bit fields.
pub(crate) fn diff_record(out: &mut String, a: u32, b: u32) {
    let v = unsafe { out.as_mut_vec() };
    let len = v.len();
    assert!(len + 9 <= v.capacity(), "verif: capacity bound exceeded");
    unsafe {
        let p = v.as_mut_ptr().add(len);
        *p = 1;
        let ab = a.to_le_bytes();
        let bb = b.to_le_bytes();
        let mut k = 0;
        while k < 4 {
            *p.add(1 + k) = ab[k];
            *p.add(5 + k) = bb[k];
            k += 1;
        }
        v.set_len(len + 9);
    }
}

fn rd_u32(b: &[u8], at: usize) -> u32 {
    u32::from_le_bytes([b[at], b[at + 1], b[at + 2], b[at + 3]])
}

fn c03_struct_body<const N: usize, const MAXLEN: usize>() {
    let lim = 1u64 << 32;
    let mut toks = [wf_token(lim); N];
    let mut i = 1;
    while i < N {
        toks[i] = wf_token(lim);
        kani::assume((toks[i - 1].dst_line, toks[i - 1].dst_col) <= (toks[i].dst_line, toks[i].dst_col));
        i += 1;
    }
    let mut v = Vec::with_capacity(N + 1);
    let mut i = 0;
    while i < N {
        v.push(toks[i]);
        i += 1;
    }
    let sm = mk_map(v, 2, 2);
    let s = serialize_mappings(&sm);
    let bytes = s.as_bytes();
    let len = bytes.len();
    assert!(len <= MAXLEN, "verif: harness bound MAXLEN too small");
    // decoder state
    let mut line: u32 = 0;
    let mut st = [0u32; 5]; // col, src_id, src_line, src_col, name_id
    let mut nf = 0usize;
    let mut ntok = 0usize;
    let mut got = [expect_of(&toks[0]); N];
    let mut pos = 0usize;
    let mut steps = 0usize;
    let mut ended = false;
    // one iteration per item (record or separator): at most 5 records + 1 separator
    // per token, two extra ';' and the end marker
    while steps < 6 * N + 4 {
        let at_end = pos >= len;
        let b = if at_end { b',' } else { bytes[pos] };
        if b == 1 {
            assert!(pos + 9 <= len, "C03/struct-record-complete");
            assert!(nf < 5, "C03/struct-at-most-five-fields");
            let a = rd_u32(bytes, pos + 1);
            let prev = rd_u32(bytes, pos + 5);
            assert!(prev == st[nf], "C03/struct-delta-relative-to-decoder-state");
            st[nf] = a;
            nf += 1;
            pos += 9;
        } else {
            assert!(b == b',' || b == b';', "C03/struct-separator");
            if nf != 0 {
                assert!(nf == 1 || nf == 4 || nf == 5, "C03/struct-field-count");
                assert!(ntok < N, "C03/struct-no-extra-segments");
                let mut t = expect_of(&toks[0]);
                t.dst_line = line as i64;
                t.dst_col = st[0] as i64;
                t.has_src = nf >= 4;
                t.src_id = if nf >= 4 { st[1] as i64 } else { 0 };
                t.src_line = if nf >= 4 { st[2] as i64 } else { 0 };
                t.src_col = if nf >= 4 { st[3] as i64 } else { 0 };
                t.has_name = nf == 5;
                t.name_id = if nf == 5 { st[4] as i64 } else { 0 };
                got[ntok] = t;
                ntok += 1;
                nf = 0;
            }
            // (an empty segment would be skipped by any conforming reader: not asserted)
            if at_end {
                ended = true;
                break;
            }
            if b == b';' {
                line += 1;
                st[0] = 0;
            }
            pos += 1;
        }
        steps += 1;
    }
    assert!(ended, "verif: harness bound on the number of items too small");
    // expected: tokens minus exact consecutive duplicates (either reading of C03 is
    // accepted: duplicates kept or dropped)
    let mut ne = 0;
    let mut j = 0; // index into got
    let mut i = 0;
    let mut all = true;
    while i < N {
        let dup = i > 0 && toks[i] == toks[i - 1];
        if j < ntok && got[j] == expect_of(&toks[i]) && !(dup && ntok - j < N - i) {
            j += 1;
        } else if !dup {
            all = false;
        }
        if !dup {
            ne += 1;
        }
        i += 1;
    }
    assert!(all && j == ntok, "C03/struct-tokens-read-back");
    assert!(ntok >= ne, "C03/struct-token-count");
    if N >= 2 {
        kani::cover!(ntok < N, "consecutive duplicate dropped");
        kani::cover!(toks[1].dst_line == 2 && toks[0].dst_line == 0, "empty line between tokens");
        kani::cover!(toks[1].src_id != !0 && toks[0].src_id != !0 && toks[1].src_col < toks[0].src_col, "negative original-column delta");
        kani::cover!(toks[0].src_id == !0 && toks[1].name_id != !0, "1-field then 5-field segment");
        kani::cover!(toks[0].dst_col == u32::MAX, "column u32::MAX");
    }
    kani::cover!(toks[0].dst_line == 2, "map starts on line 2");
    forget(s);
    forget(sm);
}

macro_rules! c03_struct {
    ($name:ident, $n:literal, $maxlen:literal, $u:literal) => {
        #[kani::proof]
        #[kani::unwind($u)]
        #[kani::stub(std::string::String::new, crate::vstubs::string_new_big)]
        #[kani::stub(std::string::String::push, crate::vstubs::string_push)]
        #[kani::stub(crate::encoder::encode_vlq_diff, crate::encoder::verif_h::diff_record)]
        fn $name() {
            c03_struct_body::<$n, $maxlen>()
        }
    };
}
c03_struct!(c03_struct_n1, 1, 48, 12);
c03_struct!(c03_struct_n2, 2, 94, 18);
c03_struct!(c03_struct_n3, 3, 140, 24);
c03_struct!(c03_struct_n4, 4, 186, 30);

// ---------------------------------------------------------------------------
// C07 (thorough): encode_rmi writes flag k of the data into digit k / 6, bit k % 6,
// trimming trailing all-zero digits (at least one digit is written).
fn c07_rmi_encode_body<const N: usize>() {
    let data: [u8; N] = kani::any();
    let mut out: Vec<u8> = Vec::with_capacity(8);
    encode_rmi(&mut out, &data);
    // reference: index of the last set flag
    let mut last = 0usize;
    let mut k = 0;
    while k < 8 * N {
        if (data[k / 8] >> (k % 8)) & 1 == 1 {
            last = k;
        }
        k += 1;
    }
    let ndig = last / 6 + 1;
    assert!(out.len() == ndig, "C07/rmi-encode-digit-count");
    let mut j = 0;
    while j < ndig && j < out.len() {
        let d = ref_b64(out[j]);
        assert!(d >= 0, "C07/rmi-encode-alphabet");
        let mut b = 0;
        while b < 6 {
            let k = 6 * j + b;
            let want = k <= last && k < 8 * N && (data[k / 8] >> (k % 8)) & 1 == 1;
            assert!(((d >> b) & 1 == 1) == want, "C07/rmi-encode-bit-layout");
            b += 1;
        }
        j += 1;
    }
    kani::cover!(ndig == 2, "two digits");
    forget(out);
}

#[kani::proof]
#[kani::unwind(10)]
#[kani::stub(std::vec::Vec::push, crate::vstubs::vec_push)]
fn c07_rmi_encode_n1() {
    c07_rmi_encode_body::<1>()
}

#[kani::proof]
#[kani::unwind(18)]
#[kani::stub(std::vec::Vec::push, crate::vstubs::vec_push)]
fn c07_rmi_encode_n2() {
    c07_rmi_encode_body::<2>()
}

// C07 (thorough): serialize_range_mappings records each range flag at the token's index
// within its own line.  Reference reader: ';' separates lines, digit j bit b = flag 6j+b.
fn c07_ser_flags_body<const N: usize>() {
    let mut toks = [wf_token(16); N];
    let mut i = 0;
    while i < N {
        let mut t = wf_token(16);
        t.is_range = kani::any();
        kani::assume(t.dst_line <= 1);
        if i > 0 {
            kani::assume((toks[i - 1].dst_line, toks[i - 1].dst_col) < (t.dst_line, t.dst_col));
        }
        toks[i] = t;
        i += 1;
    }
    let mut v = Vec::with_capacity(N + 1);
    let mut i = 0;
    while i < N {
        v.push(toks[i]);
        i += 1;
    }
    let sm = mk_map(v, 2, 2);
    let out = serialize_range_mappings(&sm);
    let mut any_range = false;
    let mut i = 0;
    while i < N {
        any_range = any_range || toks[i].is_range;
        i += 1;
    }
    assert!(out.is_some() == any_range, "C07/range-mappings-key-present-iff-any-range-token");
    if let Some(ref s) = out {
        let b = s.as_bytes();
        assert!(b.len() <= 4, "verif: harness bound on rangeMappings length");
        // read back: flag of token (line l, index-in-line x)
        let mut i = 0;
        while i < N {
            let l = toks[i].dst_line;
            let mut x = 0usize;
            let mut j = 0;
            while j < i {
                if toks[j].dst_line == l {
                    x += 1;
                }
                j += 1;
            }
            // find the start of line l in the string
            let mut pos = 0usize;
            let mut line = 0u32;
            while pos < b.len() && line < l {
                if b[pos] == b';' {
                    line += 1;
                }
                pos += 1;
            }
            let mut flag = false;
            if line == l {
                let dpos = pos + x / 6;
                let mut within = dpos < b.len();
                let mut q = pos;
                while q < dpos && q < b.len() {
                    if b[q] == b';' {
                        within = false;
                    }
                    q += 1;
                }
                if within && b[dpos] != b';' {
                    let d = ref_b64(b[dpos]);
                    assert!(d >= 0, "C07/range-mappings-alphabet");
                    flag = (d >> (x % 6)) & 1 == 1;
                }
            }
            assert!(flag == toks[i].is_range, "C07/range-flag-recorded-at-index-within-own-line");
            i += 1;
        }
    }
    if N >= 2 {
        kani::cover!(toks[1].is_range && toks[1].dst_line == 1 && toks[0].dst_line == 0, "first-on-line range token on line 1");
        kani::cover!(toks[1].is_range && toks[1].dst_line == toks[0].dst_line && !toks[0].is_range, "second on its line");
    }
    forget(out);
    forget(sm);
}

#[kani::proof]
#[kani::unwind(19)]
fn c07_ser_flags_n1() {
    c07_ser_flags_body::<1>()
}

#[kani::proof]
#[kani::unwind(35)]
#[kani::stub(std::vec::Vec::new, crate::vstubs::vec_new)]
#[kani::stub(std::vec::Vec::push, crate::vstubs::vec_push)]
fn c07_ser_flags_n2() {
    c07_ser_flags_body::<2>()
}

// ---------------------------------------------------------------------------
// C03: raw-map fields carry the map's values; absent values give None (hence, by the
// skip_serializing_if attributes of RawSourceMap, no key rather than null).
#[kani::proof]
#[kani::unwind(6)]
fn c03_rawmap() {
    let mut sm = mk_map(Vec::with_capacity(1), 2, 1);
    let has_file: bool = kani::any();
    let has_root: bool = kani::any();
    let has_did: bool = kani::any();
    let has_ign: bool = kani::any();
    // contents of each of the two sources are present or absent independently
    let c0: bool = kani::any();
    let c1: bool = kani::any();
    let table: bool = kani::any(); // whether the contents table exists at all
    let has_content = table && (c0 || c1);
    if has_file {
        sm.file = Some("f".into());
    }
    if has_root {
        sm.source_root = Some("r".into());
    }
    if has_did {
        sm.debug_id = Some(debugid::DebugId::default());
    }
    if has_ign {
        sm.ignore_list.insert(1);
    }
    if table {
        sm.sources_content.push(if c0 { Some(crate::sourceview::SourceView::new("c".into())) } else { None });
        sm.sources_content.push(if c1 { Some(crate::sourceview::SourceView::new("d".into())) } else { None });
    }
    let raw = sm.as_raw_sourcemap();
    assert!(raw.version == Some(3), "C03/raw-version-3");
    assert!(raw.file.is_some() == has_file, "C03/raw-file-present-iff-set");
    assert!(raw.source_root.is_some() == has_root, "C03/raw-source-root-present-iff-set");
    assert!(raw.debug_id.is_some() == has_did, "C03/raw-debug-id-present-iff-set");
    assert!(raw._debug_id_new.is_none(), "C03/raw-only-one-debug-id-key");
    assert!(raw.ignore_list.is_some() == has_ign, "C03/raw-ignore-list-present-iff-non-empty");
    assert!(raw.sources_content.is_some() == has_content, "C03/raw-contents-present-iff-any");
    assert!(raw.sections.is_none() && raw.x_facebook_sources.is_none() && raw.x_facebook_offsets.is_none()
        && raw.x_metro_module_paths.is_none(), "C03/raw-no-foreign-keys");
    assert!(raw.range_mappings.is_none(), "C03/raw-no-range-mappings-without-range-tokens");
    assert!(raw.mappings.as_ref().map(|m| m.len()) == Some(0), "C03/raw-mappings-always-present");
    assert!(raw.sources.as_ref().map(|s| s.len()) == Some(2), "C03/raw-sources-carried");
    assert!(raw.names.as_ref().map(|s| s.len()) == Some(1), "C03/raw-names-carried");
    if let Some(ref il) = raw.ignore_list {
        assert!(il.len() == 1 && il[0] == 1, "C03/raw-ignore-list-values");
    }
    if let Some(ref sc) = raw.sources_content {
        assert!(sc.len() == 2 && sc[0].is_some() == c0 && sc[1].is_some() == c1, "C03/raw-contents-values");
        if let Some(ref t) = sc[0] {
            assert!(t.as_bytes() == b"c", "C03/raw-contents-values");
        }
    }
    if let Some(ref r) = raw.source_root {
        assert!(r.as_bytes() == b"r", "C03/raw-source-root-value");
    }
    kani::cover!(has_file && has_root && has_did && has_ign && has_content, "everything present");
    kani::cover!(table && c0 && !c1, "contents for the first source only");
    kani::cover!(table && !c0 && !c1, "contents table with no contents");
    kani::cover!(!has_file && !has_root && !has_did && !has_ign && !has_content, "nothing present");
    forget(raw);
    forget(sm);
}

// Kani harnesses for src/types.rs (child module of `crate::types`; sees private fields).
// Properties: C04 (lookup / ordering), C05 (no panic on queries), C07 (range lookup),
// C08 (index lookup and the lifted flatten step), C10 (adjust_mappings).
use super::*;
use std::collections::BTreeSet;
use std::mem::forget;

pub(crate) fn any_token() -> RawToken {
    RawToken {
        dst_line: kani::any(),
        dst_col: kani::any(),
        src_line: kani::any(),
        src_col: kani::any(),
        src_id: kani::any(),
        name_id: kani::any(),
        is_range: kani::any(),
    }
}

pub(crate) fn any_tokens<const N: usize>() -> [RawToken; N] {
    let mut a = [RawToken {
        dst_line: 0,
        dst_col: 0,
        src_line: 0,
        src_col: 0,
        src_id: 0,
        name_id: 0,
        is_range: false,
    }; N];
    let mut i = 0;
    while i < N {
        a[i] = any_token();
        i += 1;
    }
    a
}

pub(crate) fn assume_sorted(a: &[RawToken]) {
    let mut i = 1;
    while i < a.len() {
        kani::assume((a[i - 1].dst_line, a[i - 1].dst_col) <= (a[i].dst_line, a[i].dst_col));
        i += 1;
    }
}

pub(crate) fn mk_map(tokens: Vec<RawToken>) -> SourceMap {
    SourceMap {
        file: None,
        tokens,
        names: Vec::new(),
        source_root: None,
        sources: Vec::new(),
        sources_prefixed: None,
        sources_content: Vec::new(),
        ignore_list: BTreeSet::new(),
        debug_id: None,
    }
}

pub(crate) fn vec_of<const N: usize>(a: &[RawToken; N]) -> Vec<RawToken> {
    let mut v = Vec::with_capacity(N + 1);
    let mut i = 0;
    while i < N {
        v.push(a[i]);
        i += 1;
    }
    v
}

/// reference: index of the last token at or before (line, col), and of the first
/// token exactly at (line, col); flat scan.
pub(crate) fn ref_lookup(a: &[RawToken], line: u32, col: u32) -> (Option<usize>, Option<usize>) {
    let mut last_le = None;
    let mut first_eq = None;
    let mut i = 0;
    while i < a.len() {
        let k = (a[i].dst_line, a[i].dst_col);
        if k <= (line, col) {
            last_le = Some(i);
        }
        if k == (line, col) && first_eq.is_none() {
            first_eq = Some(i);
        }
        i += 1;
    }
    (last_le, first_eq)
}

// ---------------------------------------------------------------------------
// C04: SourceMap::lookup_token on any sorted map of N tokens, any query.
fn c04_lookup_body<const N: usize>() {
    let toks = any_tokens::<N>();
    assume_sorted(&toks);
    let sm = mk_map(vec_of(&toks));
    let line: u32 = kani::any();
    let col: u32 = kani::any();
    // C07's defect class (range offset) is excluded here; c07_lookup_* owns it
    let mut i = 0;
    while i < N {
        kani::assume(!toks[i].is_range);
        i += 1;
    }
    let (last_le, first_eq) = ref_lookup(&toks, line, col);
    match sm.lookup_token(line, col) {
        None => assert!(last_le.is_none(), "C04/lookup-none-only-when-nothing-precedes"),
        Some(t) => {
            assert!(last_le.is_some(), "C04/lookup-some-only-when-something-precedes");
            let want = last_le.unwrap();
            assert!(t.get_dst() == (toks[want].dst_line, toks[want].dst_col), "C04/lookup-greatest-not-after");
            if let Some(f) = first_eq {
                assert!(t.get_raw_token() == toks[f], "C04/lookup-first-on-exact-hit");
            }
            assert!(t.get_src() == (t.get_raw_token().src_line, t.get_raw_token().src_col), "C04/lookup-own-original-position");
        }
    }
    if N >= 2 {
        kani::cover!(first_eq == Some(0) && toks[1].dst_col == toks[0].dst_col && toks[1].dst_line == toks[0].dst_line
            && toks[1].src_col != toks[0].src_col, "exact hit on distinguishable duplicates");
        kani::cover!(last_le == Some(N - 1) && line > toks[N - 1].dst_line, "reached from a later line");
    }
    if N >= 1 {
        kani::cover!(last_le.is_none(), "query before the first token");
        kani::cover!(line == u32::MAX && col == u32::MAX && last_le.is_some(), "query at u32::MAX");
    }
    forget(sm);
}

macro_rules! c04_lookup {
    ($name:ident, $n:literal, $u:literal) => {
        #[kani::proof]
        #[kani::unwind($u)]
        fn $name() {
            c04_lookup_body::<$n>()
        }
    };
}
c04_lookup!(c04_lookup_n0, 0, 3);
c04_lookup!(c04_lookup_n1, 1, 4);
c04_lookup!(c04_lookup_n2, 2, 5);
c04_lookup!(c04_lookup_n3, 3, 6);
c04_lookup!(c04_lookup_n4, 4, 7);
c04_lookup!(c04_lookup_n5, 5, 8);
c04_lookup!(c04_lookup_n6, 6, 9);
c04_lookup!(c04_lookup_n8, 8, 11);

// C04: SourceMap::new orders any N tokens; get_token / tokens() / count agree.
fn check_ordered_view(sm: &SourceMap, input: &[RawToken]) {
    let n = input.len();
    assert!(sm.get_token_count() as usize == n, "C04/count");
    assert!(sm.get_token(n).is_none(), "C04/get-token-past-end");
    let mut it = sm.tokens();
    let mut i = 0;
    let mut prev = (0u32, 0u32);
    while i < n {
        let a = sm.get_token(i);
        let b = it.next();
        assert!(a.is_some() && b.is_some(), "C04/iter-length");
        let (a, b) = (a.unwrap(), b.unwrap());
        assert!(a.get_raw_token() == b.get_raw_token(), "C04/get-token-agrees-with-iteration");
        assert!(i == 0 || prev <= a.get_dst(), "C04/iteration-non-decreasing");
        prev = a.get_dst();
        // multiset equality: occurrences of this token in the input and the output
        let tok = a.get_raw_token();
        let mut cin = 0;
        let mut cout = 0;
        let mut j = 0;
        while j < n {
            if input[j] == tok {
                cin += 1;
            }
            if sm.tokens[j] == tok {
                cout += 1;
            }
            j += 1;
        }
        assert!(cin == cout, "C04/permutation");
        i += 1;
    }
    assert!(it.next().is_none(), "C04/iter-ends");
}

fn c04_new_sorted_body<const N: usize>() {
    let toks = any_tokens::<N>();
    let sm = SourceMap::new(None, vec_of(&toks), Vec::new(), Vec::new(), None);
    check_ordered_view(&sm, &toks);
    if N >= 2 {
        kani::cover!((toks[0].dst_line, toks[0].dst_col) > (toks[N - 1].dst_line, toks[N - 1].dst_col), "input out of order");
        kani::cover!(toks[0].dst_line == toks[1].dst_line && toks[0].dst_col == toks[1].dst_col, "shared position");
    }
    forget(sm);
}

macro_rules! c04_new_sorted {
    ($name:ident, $n:literal, $u:literal) => {
        #[kani::proof]
        #[kani::unwind($u)]
        fn $name() {
            c04_new_sorted_body::<$n>()
        }
    };
}
c04_new_sorted!(c04_new_sorted_n0, 0, 3);
c04_new_sorted!(c04_new_sorted_n1, 1, 4);
c04_new_sorted!(c04_new_sorted_n2, 2, 5);
c04_new_sorted!(c04_new_sorted_n3, 3, 6);
c04_new_sorted!(c04_new_sorted_n4, 4, 7);
c04_new_sorted!(c04_new_sorted_n5, 5, 8);

// C04: SourceMapBuilder::into_sourcemap after N add_raw calls in arbitrary order.
fn c04_builder_sorted_body<const N: usize>() {
    let toks = any_tokens::<N>();
    let mut b = SourceMapBuilder::new(None);
    let mut expect = toks;
    let mut i = 0;
    while i < N {
        let t = toks[i];
        let src = if t.src_id == !0 { None } else { Some(t.src_id) };
        let name = if t.name_id == !0 { None } else { Some(t.name_id) };
        let raw = b.add_raw(t.dst_line, t.dst_col, t.src_line, t.src_col, src, name, t.is_range);
        assert!(raw == t, "C04/add-raw-echo");
        expect[i] = raw;
        i += 1;
    }
    let sm = b.into_sourcemap();
    check_ordered_view(&sm, &expect);
    if N >= 2 {
        kani::cover!((toks[0].dst_line, toks[0].dst_col) > (toks[1].dst_line, toks[1].dst_col), "added out of order");
    }
    forget(sm);
}

macro_rules! c04_builder_sorted {
    ($name:ident, $n:literal, $u:literal) => {
        #[kani::proof]
        #[kani::unwind($u)]
        fn $name() {
            c04_builder_sorted_body::<$n>()
        }
    };
}
c04_builder_sorted!(c04_builder_sorted_n0, 0, 3);
c04_builder_sorted!(c04_builder_sorted_n1, 1, 4);
c04_builder_sorted!(c04_builder_sorted_n2, 2, 5);
c04_builder_sorted!(c04_builder_sorted_n3, 3, 6);

// ---------------------------------------------------------------------------
// C07: lookups landing on range / non-range tokens, any flags, any query.
fn c07_lookup_body<const N: usize>() {
    let toks = any_tokens::<N>();
    assume_sorted(&toks);
    let sm = mk_map(vec_of(&toks));
    let line: u32 = kani::any();
    let col: u32 = kani::any();
    let (last_le, _first_eq) = ref_lookup(&toks, line, col);
    let r = sm.lookup_token(line, col);
    if let Some(t) = r {
        let raw = t.get_raw_token();
        assert!((raw.dst_line, raw.dst_col) <= (line, col), "C07/lookup-not-after-query");
        assert!(t.get_src_line() == raw.src_line, "C07/lookup-original-line");
        // "advanced by the distance": never to the left of the token's own original column
        // (what happens beyond u32::MAX is the implementation's choice, wrapping to the left is not)
        assert!(t.get_src_col() >= raw.src_col, "C07/lookup-range-never-moves-left");
        if raw.is_range && raw.dst_line == line {
            let dist = (col - raw.dst_col) as u64;
            let want = raw.src_col as u64 + dist;
            if want <= u32::MAX as u64 {
                assert!(t.get_src_col() as u64 == want, "C07/lookup-range-advances-on-own-line");
            }
        } else if raw.is_range {
            assert!(t.get_src_col() == raw.src_col, "C07/lookup-range-from-later-line-own-position");
        } else {
            assert!(t.get_src_col() == raw.src_col, "C07/lookup-non-range-own-position");
        }
    }
    let hit = last_le.map(|i| toks[i]);
    kani::cover!(hit.map_or(false, |h| h.is_range && h.dst_line == line && col > h.dst_col), "inside a range on its line");
    kani::cover!(hit.map_or(false, |h| h.is_range && h.dst_line < line && col < h.dst_col), "range reached from a later line, smaller column");
    kani::cover!(hit.map_or(false, |h| h.is_range && h.dst_line < line && col > h.dst_col), "range reached from a later line, larger column");
    kani::cover!(hit.map_or(false, |h| !h.is_range), "non-range hit");
    forget(sm);
}

macro_rules! c07_lookup {
    ($name:ident, $n:literal, $u:literal) => {
        #[kani::proof]
        #[kani::unwind($u)]
        fn $name() {
            c07_lookup_body::<$n>()
        }
    };
}
c07_lookup!(c07_lookup_n1, 1, 4);
c07_lookup!(c07_lookup_n2, 2, 5);
c07_lookup!(c07_lookup_n3, 3, 6);
c07_lookup!(c07_lookup_n4, 4, 7);
c07_lookup!(c07_lookup_n5, 5, 8);

// ---------------------------------------------------------------------------
// C05: every read-only query on a small map with arbitrary (also dangling) ids
// returns without panicking.
#[kani::proof]
#[kani::unwind(6)]
fn c05_lookup_any() {
    let toks = any_tokens::<3>();
    assume_sorted(&toks);
    let mut sm = mk_map(vec_of(&toks));
    sm.sources.push("s".into());
    sm.names.push("n".into());
    sm.sources_content.push(Some(SourceView::new("x".into())));
    let line: u32 = kani::any();
    let col: u32 = kani::any();
    if let Some(t) = sm.lookup_token(line, col) {
        let _ = t.get_dst();
        let _ = t.get_src();
        let s = t.get_source();
        let n = t.get_name();
        let _ = t.has_source();
        let _ = t.has_name();
        let tup = t.to_tuple();
        let _ = t.get_source_view();
        let _ = t.is_range();
        assert!(s.is_some() == (t.get_src_id() == 0), "C05/token-source-resolves-iff-in-range");
        assert!(n.is_some() == (t.get_name_id() == 0), "C05/token-name-resolves-iff-in-range");
        assert!(tup.3.is_some() == n.is_some(), "C05/to-tuple-name");
        kani::cover!(t.get_src_id() > 1 && t.get_src_id() != !0, "dangling source id");
    }
    let idx: u32 = kani::any();
    let _ = sm.get_source(idx);
    let _ = sm.get_name(idx);
    let _ = sm.get_source_contents(idx);
    let _ = sm.get_source_view(idx);
    let tk = sm.get_token(idx as usize);
    assert!(tk.is_some() == (idx < 3), "C05/get-token-bounds");
    kani::cover!(idx == u32::MAX, "index u32::MAX");
    forget(sm);
}

// ---------------------------------------------------------------------------
// C08: SourceMapIndex::lookup_token
pub(crate) fn mk_section(off: (u32, u32), map: Option<SourceMap>) -> SourceMapSection {
    SourceMapSection::new(off, None, map.map(DecodedMap::Regular))
}

pub(crate) fn mk_index(sections: Vec<SourceMapSection>) -> SourceMapIndex {
    SourceMapIndex::new(None, sections)
}

/// expected answer of a lookup at (line, col) inside a section at `off` holding `toks`
fn ref_section_lookup(off: (u32, u32), toks: &[RawToken], line: u32, col: u32) -> Option<RawToken> {
    let rl = line - off.0;
    let rc = if line == off.0 { col - off.1 } else { col };
    let (last_le, first_eq) = ref_lookup(toks, rl, rc);
    match (first_eq, last_le) {
        (Some(f), _) => Some(toks[f]),
        (None, Some(l)) => Some(toks[l]),
        _ => None,
    }
}

fn same_position_or_equal(got: RawToken, want: RawToken, exact: bool) -> bool {
    if exact {
        got == want
    } else {
        (got.dst_line, got.dst_col) == (want.dst_line, want.dst_col)
    }
}

#[kani::proof]
#[kani::unwind(5)]
fn c08_lookup_2x1() {
    let o0: (u32, u32) = kani::any();
    let o1: (u32, u32) = kani::any();
    kani::assume(o0 < o1);
    let t0 = any_tokens::<1>();
    let t1 = any_tokens::<1>();
    kani::assume(!t0[0].is_range && !t1[0].is_range);
    let mut secs = Vec::with_capacity(3);
    secs.push(mk_section(o0, Some(mk_map(vec_of(&t0)))));
    secs.push(mk_section(o1, Some(mk_map(vec_of(&t1)))));
    let idx = mk_index(secs);
    let line: u32 = kani::any();
    let col: u32 = kani::any();
    let q = (line, col);
    let got = idx.lookup_token(line, col).map(|t| t.get_raw_token());
    if q < o0 {
        assert!(got.is_none(), "C08/lookup-none-before-first-section");
    } else {
        let (off, toks) = if q >= o1 { (o1, &t1) } else { (o0, &t0) };
        let want = ref_section_lookup(off, &toks[..], line, col);
        assert!(got.is_some() == want.is_some(), "C08/lookup-resolves-within-greatest-section-not-after");
        if let (Some(g), Some(w)) = (got, want) {
            assert!(g == w, "C08/lookup-section-relative-position");
        }
    }
    kani::cover!(q >= o1 && line == o1.0 && got.is_some(), "hit on second section's first line");
    kani::cover!(q >= o1 && line > o1.0 && got.is_some(), "hit on second section's later line");
    kani::cover!(q >= o0 && q < o1 && line == o1.0 && got.is_some(), "first section queried on the line where the second starts");
    kani::cover!(q >= o1 && got.is_none(), "inside second section before its token");
    forget(idx);
}

#[kani::proof]
#[kani::unwind(6)]
fn c08_lookup_1x2() {
    let o0: (u32, u32) = kani::any();
    let t0 = any_tokens::<2>();
    assume_sorted(&t0);
    kani::assume(!t0[0].is_range && !t0[1].is_range);
    let mut secs = Vec::with_capacity(2);
    secs.push(mk_section(o0, Some(mk_map(vec_of(&t0)))));
    let idx = mk_index(secs);
    let line: u32 = kani::any();
    let col: u32 = kani::any();
    let q = (line, col);
    let got = idx.lookup_token(line, col).map(|t| t.get_raw_token());
    if q < o0 {
        assert!(got.is_none(), "C08/lookup-none-before-first-section");
    } else {
        let rl = line - o0.0;
        let rc = if line == o0.0 { col - o0.1 } else { col };
        let (last_le, first_eq) = ref_lookup(&t0, rl, rc);
        assert!(got.is_some() == last_le.is_some(), "C08/lookup-resolves-within-greatest-section-not-after");
        if let Some(g) = got {
            let want = t0[last_le.unwrap()];
            assert!(same_position_or_equal(g, first_eq.map_or(want, |f| t0[f]), first_eq.is_some()), "C08/lookup-section-relative-position");
        }
    }
    kani::cover!(q >= o0 && line == o0.0 && got.is_some() && o0.1 > 0, "first line, right of the column offset");
    kani::cover!(q >= o0 && line > o0.0 && got == Some(t0[1]), "later line, second token");
    forget(idx);
}

#[kani::proof]
#[kani::unwind(5)]
fn c08_lookup_nomap() {
    let o0: (u32, u32) = kani::any();
    let o1: (u32, u32) = kani::any();
    kani::assume(o0 < o1);
    let t0 = any_tokens::<1>();
    kani::assume(!t0[0].is_range);
    let first_has_map: bool = kani::any();
    let mut secs = Vec::with_capacity(3);
    if first_has_map {
        secs.push(mk_section(o0, Some(mk_map(vec_of(&t0)))));
        secs.push(mk_section(o1, None));
    } else {
        secs.push(mk_section(o0, None));
        secs.push(mk_section(o1, Some(mk_map(vec_of(&t0)))));
    }
    let idx = mk_index(secs);
    let line: u32 = kani::any();
    let col: u32 = kani::any();
    let q = (line, col);
    let got = idx.lookup_token(line, col).map(|t| t.get_raw_token());
    let in_second = q >= o1;
    let in_first = q >= o0 && !in_second;
    if (in_second && first_has_map) || (in_first && !first_has_map) || q < o0 {
        assert!(got.is_none(), "C08/lookup-unresolved-section-gives-nothing");
    } else {
        let off = if in_second { o1 } else { o0 };
        let want = ref_section_lookup(off, &t0[..], line, col);
        assert!(got == want, "C08/lookup-section-relative-position");
    }
    kani::cover!(in_second && first_has_map, "lands in the unresolved later section");
    kani::cover!(in_first && first_has_map && got.is_some(), "resolved first section still answers");
    forget(idx);
}

// C05: index lookups never panic for sections in non-decreasing offset order
// (what decode_index produces), including equal offsets and missing maps.
#[kani::proof]
#[kani::unwind(5)]
fn c05_index_any() {
    let o0: (u32, u32) = kani::any();
    let o1: (u32, u32) = kani::any();
    kani::assume(o0 <= o1);
    let t0 = any_tokens::<1>();
    let t1 = any_tokens::<1>();
    let m0: bool = kani::any();
    let m1: bool = kani::any();
    let mut secs = Vec::with_capacity(3);
    secs.push(mk_section(o0, if m0 { Some(mk_map(vec_of(&t0))) } else { None }));
    secs.push(mk_section(o1, if m1 { Some(mk_map(vec_of(&t1))) } else { None }));
    let idx = mk_index(secs);
    let line: u32 = kani::any();
    let col: u32 = kani::any();
    let got = idx.lookup_token(line, col);
    if let Some(t) = got {
        let _ = t.get_src();
        let _ = t.get_source();
        let _ = t.get_name();
    }
    let sidx: u32 = kani::any();
    let s = idx.get_section(sidx);
    assert!(s.is_some() == (sidx < 2), "C05/get-section-bounds");
    kani::cover!(o0 == o1 && got.is_some(), "equal offsets");
    kani::cover!(got.is_some() && got.map_or(false, |t| t.is_range()), "range token through an index");
    forget(idx);
}

// ---------------------------------------------------------------------------
// C10: adjust_mappings composes interval by interval (small token sets, 30-bit fields).
#[derive(Clone, Copy, PartialEq)]
struct Iv {
    start: (u32, u32),
    end: (u32, u32),
}

/// stretch of the element with key `k` among `keys`: from k to the next strictly greater
/// key, or the end of k's line, whichever comes first
fn stretch(keys: &[(u32, u32)], k: (u32, u32)) -> Iv {
    let mut end = (k.0, u32::MAX);
    let mut i = 0;
    while i < keys.len() {
        if keys[i] > k && keys[i] < end {
            end = keys[i];
        }
        i += 1;
    }
    Iv { start: k, end }
}

const C10_MAX: usize = 4;

/// expected tokens for one choice of live duplicates (`live_o[i]`, `live_a[j]`)
fn c10_expected(o: &[RawToken], a: &[RawToken], live_o: &[bool], live_a: &[bool], out: &mut [RawToken; C10_MAX]) -> usize {
    let mut ok: [(u32, u32); 2] = [(0, 0); 2];
    let mut ak: [(u32, u32); 2] = [(0, 0); 2];
    let mut i = 0;
    while i < o.len() {
        ok[i] = (o[i].dst_line, o[i].dst_col);
        i += 1;
    }
    let mut j = 0;
    while j < a.len() {
        ak[j] = (a[j].src_line, a[j].src_col);
        j += 1;
    }
    let mut n = 0;
    let mut j = 0;
    while j < a.len() {
        let mut i = 0;
        while i < o.len() {
            if live_o[i] && live_a[j] {
                let so = stretch(&ok[..o.len()], ok[i]);
                let sa = stretch(&ak[..a.len()], ak[j]);
                let s = if so.start > sa.start { so.start } else { sa.start };
                let e = if so.end < sa.end { so.end } else { sa.end };
                if s < e {
                    let dl = a[j].dst_line as i64 - a[j].src_line as i64;
                    let dc = a[j].dst_col as i64 - a[j].src_col as i64;
                    let mut t = o[i];
                    t.dst_line = (s.0 as i64 + dl) as u32;
                    t.dst_col = (s.1 as i64 + dc) as u32;
                    out[n] = t;
                    n += 1;
                }
            }
            i += 1;
        }
        j += 1;
    }
    n
}

/// multiset inclusion: first na entries of a  <=  first nb entries of b
fn multiset_le<const NM: usize>(a: &[RawToken; C10_MAX], na: usize, b: &[RawToken; C10_MAX], nb: usize) -> bool {
    let mut i = 0;
    while i < NM {
        if i < na {
            let mut ca = 0;
            let mut cb = 0;
            let mut j = 0;
            while j < NM {
                if j < na && a[j] == a[i] {
                    ca += 1;
                }
                if j < nb && b[j] == a[i] {
                    cb += 1;
                }
                j += 1;
            }
            if ca > cb {
                return false;
            }
        }
        i += 1;
    }
    true
}

/// multiset equality of the first n (<= NM) entries
fn multiset_eq<const NM: usize>(got: &[RawToken; C10_MAX], want: &[RawToken; C10_MAX], n: usize) -> bool {
    let mut i = 0;
    while i < NM {
        if i < n {
            let mut cg = 0;
            let mut cw = 0;
            let mut j = 0;
            while j < NM {
                if j < n {
                    if got[j] == want[i] {
                        cg += 1;
                    }
                    if want[j] == want[i] {
                        cw += 1;
                    }
                }
                j += 1;
            }
            if cg != cw {
                return false;
            }
        }
        i += 1;
    }
    true
}

fn small_token(lines: u32, cols: u32) -> RawToken {
    let t = any_token();
    kani::assume(t.dst_line < lines && t.src_line < lines && t.dst_col < cols && t.src_col < cols);
    t
}

fn c10_body<const N: usize, const M: usize, const NM: usize>(lines: u32, cols: u32) {
    let mut o = [small_token(lines, cols); N];
    let mut a = [small_token(lines, cols); M];
    let mut i = 1;
    while i < N {
        o[i] = small_token(lines, cols);
        i += 1;
    }
    let mut j = 1;
    while j < M {
        a[j] = small_token(lines, cols);
        j += 1;
    }
    let mut sm = mk_map(vec_of(&o));
    sm.sources.push("s".into());
    sm.names.push("n".into());
    let adj = mk_map(vec_of(&a));
    sm.adjust_mappings(&adj);
    let got_n = sm.tokens.len();
    assert!(got_n <= NM, "C10/at-most-one-token-per-pair");
    let mut got = [o[0]; C10_MAX];
    let mut i = 0;
    while i < NM {
        if i < got_n {
            got[i] = sm.tokens[i];
        }
        i += 1;
    }
    // ordered by generated position
    let mut i = 1;
    while i < NM {
        if i < got_n {
            assert!((got[i - 1].dst_line, got[i - 1].dst_col) <= (got[i].dst_line, got[i].dst_col), "C10/result-ordered");
        }
        i += 1;
    }
    assert!(sm.sources.len() == 1 && sm.names.len() == 1, "C10/sources-and-names-untouched");
    // which of two tokens sharing a start carries the stretch is unspecified
    let dup_o = N == 2 && (o[0].dst_line, o[0].dst_col) == (o[1].dst_line, o[1].dst_col);
    let dup_a = M == 2 && (a[0].src_line, a[0].src_col) == (a[1].src_line, a[1].src_col);
    // upper bound: every token treated as carrying its key's stretch
    let all = [true, true];
    let mut upper = [o[0]; C10_MAX];
    let un = c10_expected(&o, &a, &all, &all, &mut upper);
    let mut matched = false;
    let mut bounded = false;
    let mut co = 0;
    while co < 2 {
        let mut ca = 0;
        while ca < 2 {
            let live_o = [!dup_o || co == 0, !dup_o || co == 1];
            let live_a = [!dup_a || ca == 0, !dup_a || ca == 1];
            let mut want = [o[0]; C10_MAX];
            let wn = c10_expected(&o, &a, &live_o, &live_a, &mut want);
            if wn == got_n && multiset_eq::<NM>(&got, &want, wn) {
                matched = true;
            }
            if multiset_le::<NM>(&want, wn, &got, got_n) && multiset_le::<NM>(&got, got_n, &upper, un) {
                bounded = true;
            }
            ca += 1;
        }
        co += 1;
    }
    // NOTE on order: a Kani assert is followed by an implicit assume of its condition, so
    // the weaker statements come first and the statement with a recorded finding last.
    // (1) envelope, holds also on trees with known finding F12: every required token is
    // present, and every token present is an overlap start moved by the adjustment token's
    // displacement carrying the original token's data (tokens sharing a start may each
    // contribute)
    assert!(bounded, "C10/tokens-are-overlap-starts-moved-by-displacement");
    // (2) the statement as given, restricted to inputs where no two tokens of a side share
    // a start (F12 needs such a pair, so this label must hold everywhere)
    assert!(matched || dup_o || dup_a, "C10/exact-composition-when-starts-are-distinct");
    // (3) the statement as given: exactly one token per NON-EMPTY overlap
    assert!(matched, "C10/one-token-per-non-empty-overlap");
    kani::cover!(got_n == N * M && N * M > 1, "every pair overlaps");
    kani::cover!(got_n == 0, "no overlap");
    if N == 2 {
        kani::cover!(dup_o && got_n >= 1, "duplicated original position");
    }
    if M == 2 {
        kani::cover!(dup_a && got_n >= 1, "duplicated adjustment position");
        kani::cover!((a[0].src_line, a[0].src_col) > (a[1].src_line, a[1].src_col), "adjustment tokens out of order");
    }
    kani::cover!(got_n >= 1 && got[0].dst_line != o[0].dst_line, "multi-line displacement");
    forget(sm);
    forget(adj);
}

macro_rules! c10 {
    ($name:ident, $n:literal, $m:literal, $nm:literal, $lines:expr, $cols:expr, $u:literal) => {
        #[kani::proof]
        #[kani::unwind($u)]
        #[kani::stub(std::vec::Vec::new, crate::vstubs::vec_new_small)]
        #[kani::stub(std::vec::Vec::push, crate::vstubs::vec_push)]
        #[kani::stub(core::slice::sort::unstable::sort, crate::vstubs::sort_unstable)]
        #[kani::stub(core::slice::sort::stable::sort, crate::vstubs::sort_stable)]
        fn $name() {
            c10_body::<$n, $m, $nm>($lines, $cols)
        }
    };
}
c10!(c10_1x1_full30, 1, 1, 1, 1 << 30, 1 << 30, 3);
c10!(c10_2x1_g2x8, 2, 1, 2, 2, 8, 4);
c10!(c10_1x2_g2x8, 1, 2, 2, 2, 8, 4);
c10!(c10_2x2_g2x8, 2, 2, 4, 2, 8, 6);
c10!(c10_2x1_full30, 2, 1, 2, 1 << 30, 1 << 30, 4);
c10!(c10_1x2_full30, 1, 2, 2, 1 << 30, 1 << 30, 4);

// empty sides: nothing to compose
#[kani::proof]
#[kani::unwind(4)]
#[kani::stub(std::vec::Vec::new, crate::vstubs::vec_new_small)]
#[kani::stub(std::vec::Vec::push, crate::vstubs::vec_push)]
#[kani::stub(core::slice::sort::unstable::sort, crate::vstubs::sort_unstable)]
fn c10_2x0() {
    let t = any_tokens::<2>();
    let mut sm = mk_map(vec_of(&t));
    let adj = mk_map(Vec::with_capacity(1));
    sm.adjust_mappings(&adj);
    assert!(sm.tokens.len() == 0, "C10/empty-side-gives-empty-result");
    forget(sm);
    forget(adj);
}

#[kani::proof]
#[kani::unwind(4)]
#[kani::stub(std::vec::Vec::new, crate::vstubs::vec_new_small)]
#[kani::stub(std::vec::Vec::push, crate::vstubs::vec_push)]
#[kani::stub(core::slice::sort::unstable::sort, crate::vstubs::sort_unstable)]
fn c10_0x2() {
    let t = any_tokens::<2>();
    let mut sm = mk_map(Vec::with_capacity(1));
    let adj = mk_map(vec_of(&t));
    sm.adjust_mappings(&adj);
    assert!(sm.tokens.len() == 0, "C10/empty-side-gives-empty-result");
    forget(sm);
    forget(adj);
}

// ---------------------------------------------------------------------------
// C02: which sources a non-empty sourceRoot is joined to.  `format!` is stubbed (S4: it
// returns an empty string), so the joined text itself is not observed; what is decided is
// the classification: the name is kept as is exactly when it is absolute ('/', 'http:',
// 'https:'), for every ASCII name of N bytes.
fn c02_source_root_body<const N: usize>() {
    let name: [u8; N] = kani::any();
    let mut i = 0;
    while i < N {
        kani::assume(name[i] < 0x80 && name[i] != 0);
        i += 1;
    }
    let s = unsafe { std::str::from_utf8_unchecked(&name) };
    let joined = SourceMap::prefix_source("r", s);
    let kept = joined.len() == N && {
        let mut same = true;
        let mut i = 0;
        while i < N {
            if joined.as_bytes()[i] != name[i] {
                same = false;
            }
            i += 1;
        }
        same
    };
    let starts = |p: &[u8]| -> bool {
        if p.len() > N {
            return false;
        }
        let mut ok = true;
        let mut i = 0;
        while i < p.len() {
            if name[i] != p[i] {
                ok = false;
            }
            i += 1;
        }
        ok
    };
    let absolute = starts(b"/") || starts(b"http:") || starts(b"https:");
    assert!(kept == absolute, "C02/source-root-joined-exactly-to-non-absolute-sources");
    if N >= 6 {
        kani::cover!(starts(b"https:"), "https url");
        kani::cover!(starts(b"http") && !absolute, "relative name beginning with http");
    }
    kani::cover!(starts(b"/"), "absolute path");
    forget(joined);
}

macro_rules! c02_source_root {
    ($name:ident, $n:literal, $u:literal) => {
        #[kani::proof]
        #[kani::unwind($u)]
        #[kani::stub(alloc::fmt::format, crate::vstubs::fmt_format)]
        fn $name() {
            c02_source_root_body::<$n>()
        }
    };
}
c02_source_root!(c02_source_root_n1, 1, 9);
c02_source_root!(c02_source_root_n5, 5, 9);
c02_source_root!(c02_source_root_n6, 6, 10);
c02_source_root!(c02_source_root_n8, 8, 12);

// ---------------------------------------------------------------------------
// C08 (thorough): lookups through nested containers: an index section that holds another
// index map (offsets compose), and a Hermes section (resolved through its inner map).
#[kani::proof]
#[kani::unwind(5)]
fn c08_lookup_nested() {
    let o_outer: (u32, u32) = kani::any();
    let o_inner: (u32, u32) = kani::any();
    let t = any_tokens::<1>();
    kani::assume(!t[0].is_range);
    let mut inner_secs = Vec::with_capacity(2);
    inner_secs.push(mk_section(o_inner, Some(mk_map(vec_of(&t)))));
    let inner = mk_index(inner_secs);
    let mut outer_secs = Vec::with_capacity(2);
    outer_secs.push(SourceMapSection::new(o_outer, None, Some(DecodedMap::Index(inner))));
    let outer = mk_index(outer_secs);
    let line: u32 = kani::any();
    let col: u32 = kani::any();
    let got = outer.lookup_token(line, col).map(|t| t.get_raw_token());
    // statement applied twice: position relative to the outer section, then to the inner one
    let mut want: Option<RawToken> = None;
    if (line, col) >= o_outer {
        let l1 = line - o_outer.0;
        let c1 = if line == o_outer.0 { col - o_outer.1 } else { col };
        if (l1, c1) >= o_inner {
            want = ref_section_lookup(o_inner, &t[..], l1, c1);
        }
    }
    assert!(got == want, "C08/lookup-nested-index-composes-offsets");
    kani::cover!(got.is_some() && o_outer.1 > 0 && o_inner.1 > 0 && line == o_outer.0, "both column offsets apply");
    kani::cover!(got.is_some() && line > o_outer.0 + o_inner.0, "later line through both levels");
    kani::cover!((line, col) >= o_outer && got.is_none(), "inside the outer section, before the inner one or its token");
    forget(outer);
}


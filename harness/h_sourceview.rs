// Kani harnesses for src/sourceview.rs (child module of `crate::sourceview`).
// C15: lines and UTF-16 slices match the text, in any access order.
// C16: a shared view answers as if accessed by one thread (sequentialised
//      interleavings through the `sourcemap_verif` yield points).
use super::*;
use std::mem::forget;

const MAXP: usize = 9;

#[derive(Clone, Copy)]
struct Pieces {
    n: usize,
    start: [usize; MAXP],
    len: [usize; MAXP],
}

/// Reference splitter (flat loop): pieces of `t` split at \r\n, \n or lone \r; a
/// trailing terminator yields a final empty piece; the empty text is one empty piece.
fn ref_split(t: &[u8]) -> Pieces {
    let mut p = Pieces { n: 0, start: [0; MAXP], len: [0; MAXP] };
    let k = t.len();
    let mut start = 0;
    let mut i = 0;
    while i < k {
        if t[i] == b'\n' || t[i] == b'\r' {
            p.start[p.n] = start;
            p.len[p.n] = i - start;
            p.n += 1;
            if t[i] == b'\r' && i + 1 < k && t[i + 1] == b'\n' {
                i += 1;
            }
            start = i + 1;
        }
        i += 1;
    }
    p.start[p.n] = start;
    p.len[p.n] = k - start;
    p.n += 1;
    p
}

/// any text of N bytes over {a, b, \n, \r}
fn any_text<const N: usize>() -> [u8; N] {
    let t: [u8; N] = kani::any();
    let mut i = 0;
    while i < N {
        kani::assume(t[i] == b'a' || t[i] == b'b' || t[i] == b'\n' || t[i] == b'\r');
        i += 1;
    }
    t
}

fn view_of(t: &[u8]) -> SourceView {
    let s: &str = unsafe { std::str::from_utf8_unchecked(t) };
    SourceView::new(s.into())
}

fn line_is(sv: &SourceView, p: &Pieces, idx: u32, got: Option<&str>) -> bool {
    let i = idx as usize;
    match got {
        None => i >= p.n,
        Some(s) => {
            i < p.n
                && s.len() == p.len[i]
                && s.as_ptr() as usize == sv.source().as_ptr() as usize + p.start[i]
        }
    }
}

// C15: a single request on a fresh view, any index; then line_count.
fn c15_line_body<const N: usize>() {
    let t = any_text::<N>();
    let p = ref_split(&t);
    let sv = view_of(&t);
    let idx: u32 = kani::any();
    let got = sv.get_line(idx);
    assert!(line_is(&sv, &p, idx, got), "C15/line-is-ith-piece");
    assert!(sv.line_count() == p.n, "C15/line-count-is-number-of-pieces");
    if N >= 2 {
        kani::cover!(t[N - 1] == b'\n' && idx as usize == p.n - 1 && got == Some(""), "final empty line after trailing terminator");
        kani::cover!(t[0] == b'\r' && t[1] == b'\n' && idx == 1 && got.is_some(), "crlf at the start");
        kani::cover!(t[0] == b'\r' && t[1] != b'\n' && idx == 1 && got.is_some(), "lone cr");
        kani::cover!(idx as usize >= p.n, "past the end");
    }
    forget(sv);
}

macro_rules! sv_proof {
    ($name:ident, $u:literal, $body:expr) => {
        #[kani::proof]
        #[kani::unwind($u)]
        #[kani::stub(std::vec::Vec::new, crate::vstubs::vec_new)]
        #[kani::stub(std::vec::Vec::push, crate::vstubs::vec_push)]
        #[kani::stub(core::slice::memchr::memchr_aligned, crate::vstubs::memchr_aligned)]
        fn $name() {
            $body
        }
    };
}
sv_proof!(c15_line_n0, 4, c15_line_body::<0>());
sv_proof!(c15_line_n1, 5, c15_line_body::<1>());
sv_proof!(c15_line_n2, 6, c15_line_body::<2>());
sv_proof!(c15_line_n3, 7, c15_line_body::<3>());
sv_proof!(c15_line_n4, 8, c15_line_body::<4>());
sv_proof!(c15_line_n5, 9, c15_line_body::<5>());
sv_proof!(c15_line_n6, 10, c15_line_body::<6>());
sv_proof!(c15_line_n7, 11, c15_line_body::<7>());

// C15: any order of three requests (get_line / line_count), each equal to the
// fresh-view answer: late line first, missing before present, count before/after.
fn c15_order_body<const N: usize>() {
    let t = any_text::<N>();
    let p = ref_split(&t);
    let sv = view_of(&t);
    let mut k = 0;
    while k < 3 {
        let count: bool = kani::any();
        if count {
            assert!(sv.line_count() == p.n, "C15/line-count-any-order");
        } else {
            let idx: u32 = kani::any();
            let got = sv.get_line(idx);
            assert!(line_is(&sv, &p, idx, got), "C15/line-any-order");
        }
        k += 1;
    }
    forget(sv);
}
sv_proof!(c15_order_n3, 7, c15_order_body::<3>());
sv_proof!(c15_order_n4, 8, c15_order_body::<4>());
sv_proof!(c15_order_n5, 9, c15_order_body::<5>());

// C15: the line iterator yields every piece in order and then ends.
fn c15_lines_iter_body<const N: usize>() {
    let t = any_text::<N>();
    let p = ref_split(&t);
    let sv = view_of(&t);
    let pre: bool = kani::any();
    if pre {
        let _ = sv.get_line(kani::any());
    }
    let mut it = sv.lines();
    let mut i = 0;
    while i < p.n {
        let got = it.next();
        assert!(got.is_some() && line_is(&sv, &p, i as u32, got), "C15/iterator-yields-pieces-in-order");
        i += 1;
    }
    assert!(it.next().is_none(), "C15/iterator-ends");
    kani::cover!(p.n == N + 1, "every byte a terminator");
    forget(sv);
}
sv_proof!(c15_lines_iter_n1, 5, c15_lines_iter_body::<1>());
sv_proof!(c15_lines_iter_n2, 6, c15_lines_iter_body::<2>());
sv_proof!(c15_lines_iter_n3, 7, c15_lines_iter_body::<3>());
sv_proof!(c15_lines_iter_n4, 8, c15_lines_iter_body::<4>());

// ---------------------------------------------------------------------------
// C15: get_line_slice at UTF-16 columns.
// reference (flat loops): the slice consists of exactly the characters whose code-unit
// interval [s, e) intersects [c, c+n) -- so a surrogate pair that is only partly inside
// the range, at either end, is included whole -- and there is no slice when the line has
// fewer than c+n code units.  For n = 0 only "some slice iff the line has c units" is
// required (which empty position is returned is not specified).
fn ref_slice(chars: &[(usize, usize)], nchars: usize, col: u64, span: u64) -> Option<(usize, usize)> {
    // chars[i] = (utf8 len, utf16 len)
    let mut total = 0u64;
    let mut i = 0;
    while i < nchars {
        total += chars[i].1 as u64;
        i += 1;
    }
    if total < col + span {
        return None;
    }
    let mut off = 0usize;
    let mut off_end = 0usize;
    let mut s = 0u64;
    i = 0;
    while i < nchars {
        let e = s + chars[i].1 as u64;
        if e <= col {
            off += chars[i].0;
        }
        if s < col + span {
            off_end += chars[i].0;
        }
        s = e;
        i += 1;
    }
    if off_end < off {
        off_end = off;
    }
    Some((off, off_end))
}

fn slice_is(line_ptr: usize, want: Option<(usize, usize)>, got: Option<&str>, span: u32) -> bool {
    match (want, got) {
        (None, None) => true,
        (Some((a, b)), Some(s)) => span == 0 || (s.as_ptr() as usize == line_ptr + a && s.len() == b - a),
        _ => false,
    }
}

// ASCII line of 4 symbolic letters, any col/span < 2^31 (sum cannot overflow)
sv_proof!(c15_slice_ascii_n4, 8, {
    let t: [u8; 4] = kani::any();
    let mut i = 0;
    while i < 4 {
        kani::assume(t[i] >= b'a' && t[i] <= b'z');
        i += 1;
    }
    let sv = view_of(&t);
    let col: u32 = kani::any();
    let span: u32 = kani::any();
    kani::assume(col < (1 << 31) && span < (1 << 31));
    let chars = [(1usize, 1usize); 4];
    let want = ref_slice(&chars, 4, col as u64, span as u64);
    let got = sv.get_line_slice(0, col, span);
    assert!(slice_is(sv.source().as_ptr() as usize, want, got, span), "C15/slice-covers-code-units");
    kani::cover!(got.map_or(false, |s| s.len() == 2) && col == 1, "two letters from column 1");
    kani::cover!(got.is_none() && col < 4, "span runs past the end");
    forget(sv);
});

// 3 chars, each one of {a (1 byte / 1 unit), é (2 / 1), 👌 (4 / 2)} chosen per
// harness instance (concrete text, so the buffer length is concrete), any col, span < 8
fn c15_slice_wide_body<const K0: u8, const K1: u8, const K2: u8>() {
    let kinds = [K0, K1, K2];
    let mut buf = [0u8; 12];
    let mut chars = [(0usize, 0usize); 3];
    let mut n = 0usize;
    let mut i = 0;
    while i < 3 {
        let k = kinds[i];
        if k == 0 {
            buf[n] = b'a';
            chars[i] = (1, 1);
            n += 1;
        } else if k == 1 {
            buf[n] = 0xC3;
            buf[n + 1] = 0xA9;
            chars[i] = (2, 1);
            n += 2;
        } else {
            buf[n] = 0xF0;
            buf[n + 1] = 0x9F;
            buf[n + 2] = 0x91;
            buf[n + 3] = 0x8C;
            chars[i] = (4, 2);
            n += 4;
        }
        i += 1;
    }
    let sv = view_of(&buf[..n]);
    let col: u32 = kani::any();
    let span: u32 = kani::any();
    kani::assume(col < 8 && span < 8);
    let want = ref_slice(&chars, 3, col as u64, span as u64);
    let got = sv.get_line_slice(0, col, span);
    assert!(slice_is(sv.source().as_ptr() as usize, want, got, span), "C15/slice-covers-code-units-wide");
    kani::cover!(got.map_or(false, |s| s.len() == n), "whole line");
    kani::cover!(got.is_none(), "line shorter than col + span");
    kani::cover!(col == 1 && span == 1 && got.is_some(), "one unit from column 1");
    if K0 == 2 {
        kani::cover!(col == 1 && span >= 1 && got.is_some(), "slice starting inside the leading surrogate pair");
    }
    forget(sv);
}
sv_proof!(c15_slice_wide_200, 14, c15_slice_wide_body::<2, 0, 0>());
sv_proof!(c15_slice_wide_020, 14, c15_slice_wide_body::<0, 2, 0>());
sv_proof!(c15_slice_wide_002, 14, c15_slice_wide_body::<0, 0, 2>());
sv_proof!(c15_slice_wide_120, 14, c15_slice_wide_body::<1, 2, 0>());
sv_proof!(c15_slice_wide_212, 14, c15_slice_wide_body::<2, 1, 2>());
sv_proof!(c15_slice_wide_222, 14, c15_slice_wide_body::<2, 2, 2>());
sv_proof!(c15_slice_wide_101, 14, c15_slice_wide_body::<1, 0, 1>());
sv_proof!(c15_slice_wide_021, 14, c15_slice_wide_body::<0, 2, 1>());

// any col/span at all (u32): returns without panic; equals the reference
sv_proof!(c15_slice_big, 8, {
    let t: [u8; 2] = [b'x', b'y'];
    let sv = view_of(&t);
    let col: u32 = kani::any();
    let span: u32 = kani::any();
    let chars = [(1usize, 1usize); 2];
    let want = ref_slice(&chars, 2, col as u64, span as u64);
    let got = sv.get_line_slice(0, col, span);
    assert!(slice_is(sv.source().as_ptr() as usize, want, got, span), "C15/slice-any-column-and-span");
    kani::cover!(col as u64 + span as u64 > u32::MAX as u64, "col + span exceeds u32");
    kani::cover!(col == 1 && span == 1 && got.is_some(), "ordinary slice");
    forget(sv);
});

// ---------------------------------------------------------------------------
// C16: sequentialised interleavings (needs --cfg sourcemap_verif).
// Between the atomic blocks of one `get_line` call, other threads can only run
// complete atomic blocks of their own calls; every effect they can have on the view
// is what some number of complete nested `get_line(j)` calls have.  The callback
// installed at the repository's yield points first checks that the outer call does
// not hold the mutex (other threads could not run there), then, on a solver-chosen
// boolean, runs a nested call with a solver-chosen index and checks its answer too.
#[cfg(sourcemap_verif)]
mod c16 {
    use super::*;

    static mut DEPTH: u8 = 0;
    static mut MAX_DEPTH: u8 = 1;
    static mut REF: Pieces = Pieces { n: 0, start: [0; MAXP], len: [0; MAXP] };
    static mut NESTED_RUNS: u8 = 0;
    static mut CB_CALLS: u8 = 0;

    fn cb(sv: &SourceView, _point: u8) {
        unsafe {
            if DEPTH >= MAX_DEPTH {
                return;
            }
            if CB_CALLS < 200 {
                CB_CALLS += 1;
            }
            match sv.lines.try_lock() {
                Ok(g) => drop(g),
                Err(_) => return, // the outer call holds the lock: nobody else can run here
            }
            let go: bool = kani::any();
            if go {
                DEPTH += 1;
                NESTED_RUNS += 1;
                let j: u32 = kani::any();
                let r = sv.get_line(j);
                let p = REF;
                assert!(line_is(sv, &p, j, r), "C16/nested-call-result");
                DEPTH -= 1;
            }
        }
    }

    pub(super) fn body<const N: usize>(max_depth: u8, outer_count: bool) {
        let t = any_text::<N>();
        let p = ref_split(&t);
        let sv = view_of(&t);
        unsafe {
            REF = p;
            DEPTH = 0;
            MAX_DEPTH = max_depth;
            NESTED_RUNS = 0;
            CB_CALLS = 0;
            verif_hooks::set_callback(Some(cb));
        }
        // optional earlier call by "another thread" so that the view starts in any
        // reachable state
        let warm: bool = kani::any();
        if warm {
            unsafe { DEPTH = MAX_DEPTH };
            let w: u32 = kani::any();
            let r = sv.get_line(w);
            assert!(line_is(&sv, &p, w, r), "C16/warm-call-result");
            unsafe { DEPTH = 0 };
        }
        if outer_count {
            let c = sv.line_count();
            assert!(c == p.n, "C16/outer-line-count");
        } else {
            let i: u32 = kani::any();
            let r = sv.get_line(i);
            assert!(line_is(&sv, &p, i, r), "C16/outer-result");
        }
        let nested = unsafe { NESTED_RUNS };
        // a later plain call still answers correctly (view left usable)
        unsafe { DEPTH = MAX_DEPTH };
        let k: u32 = kani::any();
        let r = sv.get_line(k);
        assert!(line_is(&sv, &p, k, r), "C16/later-call-result");
        assert!(sv.line_count() == p.n, "C16/later-line-count");
        let cb_calls = unsafe { CB_CALLS };
        // other calls can always run before the outer call takes the lock (yield point 0)
        kani::cover!(nested >= 1, "a nested call ran between the outer call's blocks");
        kani::cover!(nested == 0, "no interference");
        kani::cover!(cb_calls >= 1, "yield points reached (hooks live)");
        unsafe { verif_hooks::set_callback(None) };
        forget(sv);
    }
}

#[cfg(sourcemap_verif)]
sv_proof!(c16_n0, 5, c16::body::<0>(1, false));
#[cfg(sourcemap_verif)]
sv_proof!(c16_n1, 6, c16::body::<1>(1, false));
#[cfg(sourcemap_verif)]
sv_proof!(c16_n2, 7, c16::body::<2>(1, false));
#[cfg(sourcemap_verif)]
sv_proof!(c16_n3, 8, c16::body::<3>(1, false));
#[cfg(sourcemap_verif)]
sv_proof!(c16_n4, 9, c16::body::<4>(1, false));
#[cfg(sourcemap_verif)]
sv_proof!(c16_count_n2, 7, c16::body::<2>(1, true));
#[cfg(sourcemap_verif)]
sv_proof!(c16_count_n3, 8, c16::body::<3>(1, true));
#[cfg(sourcemap_verif)]
sv_proof!(c16_depth2_n2, 7, c16::body::<2>(2, false));
#[cfg(sourcemap_verif)]
sv_proof!(c16_depth2_n3, 8, c16::body::<3>(2, false));

// ---------------------------------------------------------------------------
// C16, hook-independent variant: `std::sync::Mutex::lock` itself is replaced (S7) by a
// version that first lets "other threads" run (the same nested-call callback as above)
// and then takes the lock with try_lock; a lock that is already held by this call chain
// is a self-deadlock and is reported.  Every lock acquisition in the code under test --
// also one a future change adds -- thereby becomes a yield point.
#[cfg(sourcemap_verif)]
pub(crate) mod c16_lockstub {
    use super::*;
    use std::sync::{LockResult, MutexGuard, TryLockError};

    pub(crate) static mut VIEW: *const SourceView = std::ptr::null();
    pub(crate) static mut ACTIVE: bool = false;
    pub(crate) static mut DEPTH: u8 = 0;
    pub(crate) static mut NESTED: u8 = 0;
    pub(crate) static mut REFP: Pieces = Pieces { n: 0, start: [0; MAXP], len: [0; MAXP] };

    /// one complete call by "another thread", answer checked against the reference
    unsafe fn nested_call() {
        DEPTH = 1;
        NESTED += 1;
        let j: u32 = kani::any();
        let r = (*VIEW).get_line(j);
        let p = REFP;
        assert!(line_is(&*VIEW, &p, j, r), "C16/nested-call-result");
        DEPTH = 0;
    }

    /// S7: replacement of std::sync::Mutex::lock.  Outer call: first let another thread run
    /// a complete call, then take the lock (a lock this call chain already holds is a
    /// self-deadlock).  Nested call: a lock that is held means this thread would have to
    /// wait for the outer call -- that is not an interleaving of complete calls, the path
    /// is dropped.
    pub(crate) fn lock_with_yield<T>(m: &std::sync::Mutex<T>) -> LockResult<MutexGuard<'_, T>> {
        unsafe {
            if ACTIVE && DEPTH == 0 && !VIEW.is_null() {
                let go: bool = kani::any();
                if go {
                    nested_call();
                }
            }
        }
        match m.try_lock() {
            Ok(g) => Ok(g),
            Err(TryLockError::Poisoned(p)) => Err(p),
            Err(TryLockError::WouldBlock) => {
                if unsafe { DEPTH } > 0 {
                    kani::assume(false);
                } else {
                    assert!(false, "C16/call-blocks-on-a-lock-it-holds");
                }
                loop {}
            }
        }
    }

    /// callback for the repository's yield points (also those inside a critical section:
    /// a nested call that needs the lock there is dropped by lock_with_yield, one that gets
    /// by without the lock -- e.g. through try_lock and a fallback -- is run and checked)
    fn hook_cb(_sv: &SourceView, _point: u8) {
        unsafe {
            if ACTIVE && DEPTH == 0 && !VIEW.is_null() {
                let go: bool = kani::any();
                if go {
                    nested_call();
                }
            }
        }
    }

    pub(crate) fn body<const N: usize>(outer_count: bool) {
        let t = any_text::<N>();
        let p = ref_split(&t);
        let sv = view_of(&t);
        unsafe {
            REFP = p;
            VIEW = &sv as *const SourceView;
            DEPTH = 0;
            NESTED = 0;
            ACTIVE = false;
            verif_hooks::set_callback(Some(hook_cb));
        }
        let warm: bool = kani::any();
        if warm {
            let w: u32 = kani::any();
            let r = sv.get_line(w);
            assert!(line_is(&sv, &p, w, r), "C16/warm-call-result");
        }
        unsafe { ACTIVE = true };
        if outer_count {
            let c = sv.line_count();
            assert!(c == p.n, "C16/outer-line-count");
        } else {
            let i: u32 = kani::any();
            let r = sv.get_line(i);
            assert!(line_is(&sv, &p, i, r), "C16/outer-result");
        }
        unsafe { ACTIVE = false };
        let nested = unsafe { NESTED };
        let k: u32 = kani::any();
        let r = sv.get_line(k);
        assert!(line_is(&sv, &p, k, r), "C16/later-call-result");
        assert!(sv.line_count() == p.n, "C16/later-line-count");
        kani::cover!(nested >= 1, "a nested call ran before a lock acquisition");
        kani::cover!(nested == 0, "no interference");
        unsafe {
            VIEW = std::ptr::null();
            verif_hooks::set_callback(None);
        }
        forget(sv);
    }
}

#[cfg(sourcemap_verif)]
macro_rules! c16_lock_proof {
    ($name:ident, $u:literal, $body:expr) => {
        #[kani::proof]
        #[kani::unwind($u)]
        #[kani::stub(std::vec::Vec::new, crate::vstubs::vec_new)]
        #[kani::stub(std::vec::Vec::push, crate::vstubs::vec_push)]
        #[kani::stub(core::slice::memchr::memchr_aligned, crate::vstubs::memchr_aligned)]
        #[kani::stub(std::sync::Mutex::lock, crate::sourceview::verif_h::c16_lockstub::lock_with_yield)]
        fn $name() {
            $body
        }
    };
}
#[cfg(sourcemap_verif)]
c16_lock_proof!(c16_lock_n1, 6, c16_lockstub::body::<1>(false));
#[cfg(sourcemap_verif)]
c16_lock_proof!(c16_lock_n2, 7, c16_lockstub::body::<2>(false));
#[cfg(sourcemap_verif)]
c16_lock_proof!(c16_lock_count_n2, 7, c16_lockstub::body::<2>(true));

// Kani harnesses for src/decoder.rs (child module `verif_h` of `crate::decoder`).
// Shared stand-ins for the lifted decode_regular fragments (h_decoder_seg.rs,
// h_decoder_line.rs), C12 (header stripping), C02 (kind dispatch / debug id),
// C07 (decode_rmi bit layout).
#![allow(dead_code)]
use super::*;
use std::mem::forget;


/// stands in for `sources` / `names` of decode_regular: the body only asks `.len()`
pub(crate) struct LenOnly(pub(crate) usize);
impl LenOnly {
    pub(crate) fn len(&self) -> usize {
        self.0
    }
}

/// stands in for the per-line range-mapping bit vector: the body only asks `.get(i)`
pub(crate) struct MockRmi {
    pub(crate) bits: u8,
    pub(crate) len: usize,
}
static T: bool = true;
static F: bool = false;
impl MockRmi {
    pub(crate) fn bit(&self, i: usize) -> bool {
        i < 8 && (self.bits >> i) & 1 == 1
    }
    pub(crate) fn get(&self, i: usize) -> Option<&bool> {
        if i < self.len {
            Some(if self.bit(i) { &T } else { &F })
        } else {
            None
        }
    }
}

#[derive(Clone, Copy)]
pub(crate) struct St {
    pub(crate) dst_col: u32,
    pub(crate) src_id: u32,
    pub(crate) src_line: u32,
    pub(crate) src_col: u32,
    pub(crate) name_id: u32,
}

pub(crate) fn any_st() -> St {
    St {
        dst_col: kani::any(),
        src_id: kani::any(),
        src_line: kani::any(),
        src_col: kani::any(),
        name_id: kani::any(),
    }
}

/// One execution of the repository's segment-loop body.  Everything between the
/// braces of `for _once` is /repo's own text; the parameters are its free variables.
pub(crate) fn as_str(b: &[u8]) -> &str {
    unsafe { std::str::from_utf8_unchecked(b) }
}


// ---------------------------------------------------------------------------
// C12: the streaming header stripper and the slice header stripper agree for every
// input and every chunking of the stream.
struct ChunkReader<'a> {
    data: &'a [u8],
    pos: usize,
    reads: u32,
    short_reads: u32,
}

impl<'a> Read for ChunkReader<'a> {
    fn read(&mut self, buf: &mut [u8]) -> io::Result<usize> {
        let rem = self.data.len() - self.pos;
        if rem == 0 || buf.is_empty() {
            return Ok(0);
        }
        // the chunking is the solver's choice: any 1..=min(rem, buf.len()) bytes
        let k: usize = kani::any();
        kani::assume(k >= 1 && k <= rem && k <= buf.len());
        let mut i = 0;
        while i < k {
            buf[i] = self.data[self.pos + i];
            i += 1;
        }
        self.pos += k;
        self.reads += 1;
        if k < rem && k < buf.len() {
            self.short_reads += 1;
        }
        Ok(k)
    }
}

fn c12_hdr_body<const N: usize, const B: usize>() {
    let data: [u8; N] = kani::any();
    // slice path
    let sres = strip_junk_header(&data);
    let (s_ok, s_start) = match &sres {
        Ok(rest) => (true, N - rest.len()),
        Err(_) => (false, 0),
    };
    forget(sres);
    // reader path
    let mut rdr = StripHeaderReader::new(ChunkReader { data: &data, pos: 0, reads: 0, short_reads: 0 });
    let mut out = [0u8; N];
    let mut n_out = 0usize;
    let mut r_ok = true;
    let mut calls = 0;
    let mut finished = false;
    while calls < N + 2 {
        // caller buffer of B bytes (concrete per harness instance); how many bytes each
        // inner read delivers (1..=B) is the solver's choice
        let want: usize = B;
        let mut buf = [0u8; B];
        let r = rdr.read(&mut buf[..]);
        match r {
            Ok(0) => {
                finished = true;
                break;
            }
            Ok(k) => {
                assert!(k <= want, "C12/read-returns-at-most-buffer-size");
                let mut i = 0;
                while i < k {
                    assert!(n_out < N, "C12/reader-never-produces-more-than-input");
                    out[n_out] = buf[i];
                    n_out += 1;
                    i += 1;
                }
            }
            Err(e) => {
                forget(e);
                r_ok = false;
                finished = true;
                break;
            }
        }
        calls += 1;
    }
    assert!(finished, "verif: harness bound on the number of reads too small");
    assert!(r_ok == s_ok, "C12/reader-and-slice-fail-together");
    if r_ok && s_ok {
        // the slice path keeps the '\n' that ends the header (the JSON parser skips it)
        let had_header = s_start > 0 || (N > 0 && is_junk_json(data[0]));
        let mut exp_start = s_start;
        if had_header && exp_start < N && data[exp_start] == b'\n' {
            exp_start += 1;
        }
        assert!(n_out == N - exp_start, "C12/reader-output-length-matches-slice");
        let mut i = 0;
        while i < n_out {
            assert!(out[i] == data[exp_start + i], "C12/reader-output-bytes-match-slice");
            i += 1;
        }
    }
    let short = rdr.r.short_reads;
    let reads = rdr.r.reads;
    if N >= 3 {
        kani::cover!(s_ok && is_junk_json(data[0]) && data[1] == b'\n' && n_out == N - 2, "header ends with LF, payload follows");
        kani::cover!(!s_ok, "bare CR rejected");
        kani::cover!(s_ok && !is_junk_json(data[0]) && n_out == N, "no header");
        kani::cover!(short >= 1, "inner reader returned a short read");
        kani::cover!(reads >= 3, "three inner reads");
        kani::cover!(s_ok && is_junk_json(data[0]) && data[1] == b'\r' && data[2] == b'\n', "CRLF header");
    }
    forget(rdr);
}

macro_rules! c12_hdr {
    ($name:ident, $n:literal, $b:literal, $u:literal) => {
        #[kani::proof]
        #[kani::unwind($u)]
        fn $name() {
            c12_hdr_body::<$n, $b>()
        }
    };
}
c12_hdr!(c12_hdr_n0_b2, 0, 2, 4);
c12_hdr!(c12_hdr_n1_b2, 1, 2, 4);
c12_hdr!(c12_hdr_n2_b2, 2, 2, 5);
c12_hdr!(c12_hdr_n3_b2, 3, 2, 6);
c12_hdr!(c12_hdr_n3_b3, 3, 3, 6);
c12_hdr!(c12_hdr_n4_b2, 4, 2, 7);
c12_hdr!(c12_hdr_n4_b3, 4, 3, 7);
c12_hdr!(c12_hdr_n5_b3, 5, 3, 8);

// C12 with an ENUMERATED chunking: the inner reader delivers the chunk sizes of a concrete
// schedule (one harness instance per composition of N), the bytes stay symbolic.  With
// concrete read sizes every loop folds, which makes N = 3, 4 affordable.
struct SchedReader<'a> {
    data: &'a [u8],
    pos: usize,
    sched: [usize; 4],
    next: usize,
}

impl<'a> Read for SchedReader<'a> {
    fn read(&mut self, buf: &mut [u8]) -> io::Result<usize> {
        let rem = self.data.len() - self.pos;
        if rem == 0 || buf.is_empty() {
            return Ok(0);
        }
        let k = if self.next < 4 { self.sched[self.next] } else { rem };
        assert!(k >= 1 && k <= rem && k <= buf.len(), "verif: harness bound (schedule does not fit)");
        let mut i = 0;
        while i < k {
            buf[i] = self.data[self.pos + i];
            i += 1;
        }
        self.pos += k;
        self.next += 1;
        Ok(k)
    }
}

fn c12_sched_body<const N: usize, const CALLS: usize, const S0: usize, const S1: usize, const S2: usize, const S3: usize>() {
    let data: [u8; N] = kani::any();
    let sres = strip_junk_header(&data);
    let (s_ok, s_start) = match &sres {
        Ok(rest) => (true, N - rest.len()),
        Err(_) => (false, 0),
    };
    forget(sres);
    // absolute reading of the header rule (not only agreement of the two paths): a first
    // line starting with one of ) ] } ' is junk up to its \n or \r\n; a \r followed by any
    // other byte is refused; the slice path hands on everything from the \n
    let mut spec_ok = true;
    let mut spec_start = 0usize;
    if is_junk_json(data[0]) {
        spec_start = N;
        let mut i = 0;
        let mut decided = false;
        while i < N {
            if !decided {
                if data[i] == b'\n' {
                    spec_start = i;
                    decided = true;
                } else if data[i] == b'\r' {
                    if i + 1 < N && data[i + 1] != b'\n' {
                        spec_ok = false;
                        decided = true;
                    }
                }
            }
            i += 1;
        }
    }
    assert!(s_ok == spec_ok, "C12/slice-rejects-exactly-bare-cr-headers");
    if s_ok && spec_ok {
        assert!(s_start == spec_start, "C12/slice-skips-exactly-the-junk-line");
    }
    let mut rdr = StripHeaderReader::new(SchedReader { data: &data, pos: 0, sched: [S0, S1, S2, S3], next: 0 });
    let mut out = [0u8; N];
    let mut n_out = 0usize;
    let mut r_ok = true;
    let mut finished = false;
    let mut calls = 0;
    // at most one caller read per scheduled chunk, plus the read that reports the end
    while calls < CALLS {
        let mut buf = [0u8; N];
        let r = rdr.read(&mut buf[..]);
        match r {
            Ok(0) => {
                finished = true;
                break;
            }
            Ok(k) => {
                let mut i = 0;
                while i < k {
                    assert!(n_out < N, "C12/reader-never-produces-more-than-input");
                    out[n_out] = buf[i];
                    n_out += 1;
                    i += 1;
                }
            }
            Err(e) => {
                forget(e);
                r_ok = false;
                finished = true;
                break;
            }
        }
        calls += 1;
    }
    assert!(finished, "verif: harness bound on the number of reads too small");
    assert!(r_ok == s_ok, "C12/reader-and-slice-fail-together");
    if r_ok && s_ok {
        let had_header = is_junk_json(data[0]);
        let mut exp_start = s_start;
        if had_header && exp_start < N && data[exp_start] == b'\n' {
            exp_start += 1;
        }
        assert!(n_out == N - exp_start, "C12/reader-output-length-matches-slice");
        let mut i = 0;
        while i < N {
            if i < n_out {
                assert!(out[i] == data[exp_start + i], "C12/reader-output-bytes-match-slice");
            }
            i += 1;
        }
    }
    kani::cover!(s_ok && is_junk_json(data[0]) && data[1] == b'\n' && n_out == N - 2, "LF header, payload follows");
    kani::cover!(s_ok && is_junk_json(data[0]) && data[1] == b'\r' && data[2] == b'\n', "CRLF header");
    kani::cover!(!s_ok, "bare CR rejected");
    kani::cover!(s_ok && !is_junk_json(data[0]) && n_out == N, "no header");
    forget(rdr);
}

macro_rules! c12_sched {
    ($name:ident, $n:literal, $calls:literal, $s0:literal, $s1:literal, $s2:literal, $s3:literal, $u:literal) => {
        #[kani::proof]
        #[kani::unwind($u)]
        fn $name() {
            c12_sched_body::<$n, $calls, $s0, $s1, $s2, $s3>()
        }
    };
}
// all compositions of 3
c12_sched!(c12_sched_n3_111, 3, 4, 1, 1, 1, 9, 5);
c12_sched!(c12_sched_n3_12, 3, 3, 1, 2, 9, 9, 5);
c12_sched!(c12_sched_n3_21, 3, 3, 2, 1, 9, 9, 5);
c12_sched!(c12_sched_n3_3, 3, 2, 3, 9, 9, 9, 5);
// all compositions of 4
c12_sched!(c12_sched_n4_1111, 4, 5, 1, 1, 1, 1, 6);
c12_sched!(c12_sched_n4_112, 4, 4, 1, 1, 2, 9, 6);
c12_sched!(c12_sched_n4_121, 4, 4, 1, 2, 1, 9, 6);
c12_sched!(c12_sched_n4_211, 4, 4, 2, 1, 1, 9, 6);
c12_sched!(c12_sched_n4_22, 4, 3, 2, 2, 9, 9, 6);
c12_sched!(c12_sched_n4_13, 4, 3, 1, 3, 9, 9, 6);
c12_sched!(c12_sched_n4_31, 4, 3, 3, 1, 9, 9, 6);
c12_sched!(c12_sched_n4_4, 4, 2, 4, 9, 9, 9, 6);
// single-read and two-read schedules of 5 and 6 bytes
c12_sched!(c12_sched_n5_5, 5, 2, 5, 9, 9, 9, 7);
c12_sched!(c12_sched_n6_6, 6, 2, 6, 9, 9, 9, 8);
c12_sched!(c12_sched_n5_23, 5, 3, 2, 3, 9, 9, 7);
c12_sched!(c12_sched_n5_32, 5, 3, 3, 2, 9, 9, 7);

// ---------------------------------------------------------------------------
// C02: kind dispatch, debug-id precedence, index sections (RawSourceMap values built
// here, i.e. what serde_json hands to decode_common).
use crate::jsontypes::{RawSection, RawSectionOffset};
use debugid::DebugId;

fn empty_rsm() -> RawSourceMap {
    RawSourceMap {
        version: Some(3),
        file: None,
        sources: None,
        source_root: None,
        sources_content: None,
        sections: None,
        names: None,
        range_mappings: None,
        mappings: None,
        ignore_list: None,
        x_facebook_offsets: None,
        x_metro_module_paths: None,
        x_facebook_sources: None,
        debug_id: None,
        _debug_id_new: None,
    }
}

fn did(tag: u8) -> DebugId {
    // DebugId is a 32-byte repr(C, packed) value; byte 0 is the first UUID byte
    let mut raw = [0u8; 32];
    raw[0] = tag;
    unsafe { std::mem::transmute::<[u8; 32], DebugId>(raw) }
}

// one harness per (concrete) combination of the two keys: symbolic presence would make
// CBMC explore the recursive drop glue of RawSourceMap -> RawSection -> Box<RawSourceMap>
fn c02_dispatch_body(has_sections: bool, has_fb: bool) {
    let mut rsm = empty_rsm();
    if has_sections {
        rsm.sections = Some(Vec::new());
    }
    if has_fb {
        rsm.x_facebook_sources = Some(Vec::new());
    }
    let r = decode_common(rsm);
    assert!(r.is_ok(), "C02/empty-document-decodes");
    if let Ok(ref m) = r {
        let kind = match m {
            DecodedMap::Regular(_) => 0,
            DecodedMap::Index(_) => 1,
            DecodedMap::Hermes(_) => 2,
        };
        let want = if has_sections { 1 } else if has_fb { 2 } else { 0 };
        assert!(kind == want, "C02/kind-dispatch-sections-then-facebook-sources-then-regular");
    }
    forget(r);
}

#[kani::proof]
#[kani::unwind(4)]
fn c02_dispatch_regular() {
    c02_dispatch_body(false, false)
}

#[kani::proof]
#[kani::unwind(4)]
fn c02_dispatch_index() {
    c02_dispatch_body(true, false)
}

#[kani::proof]
#[kani::unwind(4)]
fn c02_dispatch_hermes() {
    c02_dispatch_body(false, true)
}

#[kani::proof]
#[kani::unwind(4)]
fn c02_dispatch_both() {
    c02_dispatch_body(true, true)
}

#[kani::proof]
#[kani::unwind(34)]
fn c02_debugid() {
    let mut rsm = empty_rsm();
    let a: bool = kani::any();
    let b: bool = kani::any();
    let ta: u8 = kani::any();
    let tb: u8 = kani::any();
    if a {
        rsm.debug_id = Some(did(ta));
    }
    if b {
        rsm._debug_id_new = Some(did(tb));
    }
    let r = decode_regular(rsm);
    assert!(r.is_ok(), "C02/empty-document-decodes");
    if let Ok(ref sm) = r {
        let got = sm.get_debug_id();
        let want = if a { Some(did(ta)) } else if b { Some(did(tb)) } else { None };
        assert!(got == want, "C02/debug_id-wins-over-debugId");
        kani::cover!(a && b && ta != tb, "both keys present and different");
        kani::cover!(!a && b, "only debugId");
    }
    forget(r);
}

// ---------------------------------------------------------------------------
// C07 (thorough): decode_rmi places bit k of base64 digit j at flag index 6*j + k
// (little-endian within the digit, per the range-mappings proposal); foreign
// characters are refused.
fn c07_rmi_decode_body<const N: usize>() {
    let t: [u8; N] = kani::any();
    let mut i = 0;
    while i < N {
        kani::assume(t[i] < 0x80);
        i += 1;
    }
    let mut bv: BitVec<u8, Lsb0> = BitVec::new();
    let r = decode_rmi(as_str(&t), &mut bv);
    let mut foreign = false;
    let mut i = 0;
    while i < N {
        if crate::vlq::verif_h::ref_b64(t[i]) < 0 {
            foreign = true;
        }
        i += 1;
    }
    assert!(r.is_ok() == !foreign, "C07/rmi-decode-accepts-exactly-base64");
    if r.is_ok() {
        assert!(bv.len() == 6 * N, "C07/rmi-decode-six-flags-per-digit");
        let mut k = 0;
        while k < 6 * N {
            let d = crate::vlq::verif_h::ref_b64(t[k / 6]);
            let want = (d >> (k % 6)) & 1 == 1;
            let got = bv.get(k).map(|b| *b).unwrap_or(false);
            assert!(got == want, "C07/rmi-decode-bit-layout");
            k += 1;
        }
        assert!(bv.get(6 * N).is_none(), "C07/rmi-decode-no-flag-past-the-digits");
    }
    kani::cover!(r.is_ok() && bv.get(5).map(|b| *b).unwrap_or(false), "bit 5 of the first digit set");
    kani::cover!(foreign, "foreign character");
    forget(r);
    forget(bv);
}

#[kani::proof]
#[kani::unwind(9)]
fn c07_rmi_decode_len1() {
    c07_rmi_decode_body::<1>()
}

#[kani::proof]
#[kani::unwind(15)]
fn c07_rmi_decode_len2() {
    c07_rmi_decode_body::<2>()
}



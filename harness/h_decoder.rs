// Kani harnesses for src/decoder.rs (child module of `crate::decoder`).
// C02/C06/C05/C07: the per-segment body of decode_regular, lifted textually from
// /repo/src/decoder.rs on every run (/*@LIFT ...@*/ placeholder), driven from an
// arbitrary previous decoder state.  C02: kind dispatch / debug id.  C12: header.
use super::*;
use crate::vlq::verif_h::{ref_parse, ST_EMPTY, ST_FOREIGN, ST_LEFTOVER, ST_OK, ST_OVERFLOW};
use std::mem::forget;

/// stands in for `sources` / `names` of decode_regular: the body only asks `.len()`
struct LenOnly(usize);
impl LenOnly {
    fn len(&self) -> usize {
        self.0
    }
}

/// stands in for the per-line range-mapping bit vector: the body only asks `.get(i)`
struct MockRmi {
    bits: u8,
    len: usize,
}
static T: bool = true;
static F: bool = false;
impl MockRmi {
    fn bit(&self, i: usize) -> bool {
        i < 8 && (self.bits >> i) & 1 == 1
    }
    fn get(&self, i: usize) -> Option<&bool> {
        if i < self.len {
            Some(if self.bit(i) { &T } else { &F })
        } else {
            None
        }
    }
}

#[derive(Clone, Copy)]
struct St {
    dst_col: u32,
    src_id: u32,
    src_line: u32,
    src_col: u32,
    name_id: u32,
}

fn any_st() -> St {
    St {
        dst_col: kani::any(),
        src_id: kani::any(),
        src_line: kani::any(),
        src_col: kani::any(),
        name_id: kani::any(),
    }
}

/// One execution of the repository's segment-loop body.  Everything between the
/// braces of `for _once` is /repo's own text; the parameters are its free variables.
#[allow(unused_assignments, unused_mut, unreachable_code, clippy::never_loop)]
fn seg_step(
    segment: &str,
    line_index: usize,
    dst_line: usize,
    st: &mut St,
    n_sources: usize,
    n_names: usize,
    rmi: &MockRmi,
    tokens: &mut Vec<RawToken>,
) -> Result<()> {
    let mut dst_col = st.dst_col;
    let mut src_id = st.src_id;
    let mut src_line = st.src_line;
    let mut src_col = st.src_col;
    let mut name_id = st.name_id;
    let sources = LenOnly(n_sources);
    let names = LenOnly(n_names);
    let mut nums: Vec<i64> = Vec::with_capacity(16);
    for _once in 0..1 {
        /*@LIFT decoder_segment_body@*/
    }
    st.dst_col = dst_col;
    st.src_id = src_id;
    st.src_line = src_line;
    st.src_col = src_col;
    st.name_id = name_id;
    forget(nums);
    Ok(())
}

fn as_str(b: &[u8]) -> &str {
    unsafe { std::str::from_utf8_unchecked(b) }
}

const TWO32: i64 = 1i64 << 32;

/// The whole per-segment contract, checked for one segment text `t` from an
/// arbitrary previous state: C06 (faults rejected), C02 (well-formed segments
/// decode to previous + deltas), C07 (range flag = bit line_index), C05 (no panic).
fn seg_contract(t: &[u8]) {
    let st0 = any_st();
    let mut st = st0;
    let n_sources: u32 = kani::any();
    let n_names: u32 = kani::any();
    let line_index: usize = kani::any();
    kani::assume(line_index < 10);
    let dst_line: u32 = kani::any();
    let rmi = MockRmi { bits: kani::any(), len: kani::any() };
    kani::assume(rmi.len <= 8);
    let mut tokens: Vec<RawToken> = Vec::with_capacity(4);
    let r = ref_parse(t);
    let res = seg_step(as_str(t), line_index, dst_line as usize, &mut st, n_sources as usize, n_names as usize, &rmi, &mut tokens);
    let ok = res.is_ok();
    forget(res);
    if r.status == ST_FOREIGN {
        assert!(!ok, "C06/seg-foreign-byte-rejected");
    } else if r.status == ST_LEFTOVER {
        assert!(!ok, "C06/seg-unterminated-value-rejected");
    } else if r.status == ST_OVERFLOW {
        assert!(!ok, "C06/seg-overlong-value-rejected");
    } else if r.status == ST_OK {
        let k = r.n;
        if k != 1 && k != 4 && k != 5 {
            assert!(!ok, "C06/seg-bad-field-count-rejected");
        } else if r.exact[0] && (k == 1 || (r.exact[1] && r.exact[2] && r.exact[3])) && (k < 5 || r.exact[4]) {
            let col = st0.dst_col as i64 + r.vals[0];
            let sid = st0.src_id as i64 + r.vals[1];
            let sl = st0.src_line as i64 + r.vals[2];
            let sc = st0.src_col as i64 + r.vals[3];
            let nid = st0.name_id as i64 + r.vals[4];
            let src_bad = k >= 4 && (sid < 0 || sid >= n_sources as i64);
            let name_bad = k == 5 && (nid < 0 || nid >= n_names as i64);
            if src_bad {
                assert!(!ok, "C06/seg-source-index-out-of-range-rejected");
            }
            if name_bad && !src_bad {
                assert!(!ok, "C06/seg-name-index-out-of-range-rejected");
            }
            let in32 = |v: i64| v >= 0 && v < TWO32;
            let wf = in32(col) && (k == 1 || (in32(sl) && in32(sc))) && !src_bad && !name_bad;
            if wf {
                assert!(ok, "C02/seg-well-formed-accepted");
                assert!(tokens.len() == 1, "C02/seg-one-token");
                let tk = tokens[0];
                assert!(tk.dst_line == dst_line, "C02/seg-generated-line");
                assert!(tk.dst_col as i64 == col && st.dst_col as i64 == col, "C02/seg-generated-column-accumulates");
                if k == 1 {
                    assert!(tk.src_id == !0 && tk.name_id == !0, "C02/seg-one-field-no-source-no-name");
                    assert!(st.src_id == st0.src_id && st.src_line == st0.src_line && st.src_col == st0.src_col
                        && st.name_id == st0.name_id, "C02/seg-one-field-leaves-accumulators");
                } else {
                    assert!(tk.src_id as i64 == sid && st.src_id as i64 == sid, "C02/seg-source-index-accumulates");
                    assert!(tk.src_line as i64 == sl && st.src_line as i64 == sl, "C02/seg-original-line-accumulates");
                    assert!(tk.src_col as i64 == sc && st.src_col as i64 == sc, "C02/seg-original-column-accumulates");
                    if k == 5 {
                        assert!(tk.name_id as i64 == nid && st.name_id as i64 == nid, "C02/seg-name-index-accumulates");
                    } else {
                        assert!(tk.name_id == !0 && st.name_id == st0.name_id, "C02/seg-four-fields-no-name");
                    }
                }
                let want_range = line_index < rmi.len && rmi.bit(line_index);
                assert!(tk.is_range == want_range, "C07/seg-range-flag-is-bit-of-line-index");
            }
            kani::cover!(wf && k == 5 && r.vals[1] < 0, "well formed, negative source delta");
            kani::cover!(wf && k == 4 && tokens.len() == 1 && tokens[0].is_range, "well formed 4-field range token");
            kani::cover!(wf && k == 1, "well formed 1-field");
            kani::cover!(k >= 4 && sid >= TWO32, "source index past 2^32");
            kani::cover!(k >= 4 && sid < 0, "source index driven negative");
            kani::cover!(k == 5 && !src_bad && nid >= n_names as i64, "name index past the array");
        }
    }
    if !ok {
        assert!(tokens.len() == 0, "C06/seg-rejected-pushes-nothing");
    }
    // consequence: a pushed token's indices resolve or are the no-source marker
    if tokens.len() == 1 {
        let tk = tokens[0];
        assert!(tk.src_id == !0 || tk.src_id < n_sources, "C06/seg-token-source-resolves");
        assert!(tk.name_id == !0 || tk.name_id < n_names, "C06/seg-token-name-resolves");
    }
    forget(tokens);
}

fn c02_seg_body<const N: usize>() {
    let t: [u8; N] = kani::any();
    let mut i = 0;
    while i < N {
        kani::assume(t[i] < 0x80 && t[i] != b',' && t[i] != b';');
        i += 1;
    }
    seg_contract(&t);
}

macro_rules! c02_seg {
    ($name:ident, $n:literal, $u:literal) => {
        #[kani::proof]
        #[kani::unwind($u)]
        #[kani::stub(std::vec::Vec::push, crate::vstubs::vec_push)]
        fn $name() {
            c02_seg_body::<$n>()
        }
    };
}
c02_seg!(c02_seg_len1, 1, 4);
c02_seg!(c02_seg_len2, 2, 5);
c02_seg!(c02_seg_len3, 3, 6);
c02_seg!(c02_seg_len4, 4, 7);
c02_seg!(c02_seg_len5, 5, 8);
c02_seg!(c02_seg_len6, 6, 9);
c02_seg!(c02_seg_len7, 7, 10);
c02_seg!(c02_seg_len8, 8, 11);
c02_seg!(c02_seg_len10, 10, 13);
c02_seg!(c02_seg_len11, 11, 14);
c02_seg!(c02_seg_len14, 14, 17);

// the empty segment is skipped: Ok, nothing pushed, state untouched
#[kani::proof]
#[kani::unwind(4)]
#[kani::stub(std::vec::Vec::push, crate::vstubs::vec_push)]
fn c02_seg_empty() {
    let st0 = any_st();
    let mut st = st0;
    let rmi = MockRmi { bits: kani::any(), len: 8 };
    let mut tokens: Vec<RawToken> = Vec::with_capacity(4);
    let t: [u8; 0] = [];
    let res = seg_step(as_str(&t), kani::any(), kani::any(), &mut st, kani::any(), kani::any(), &rmi, &mut tokens);
    assert!(res.is_ok(), "C02/empty-segment-skipped");
    assert!(tokens.len() == 0, "C02/empty-segment-pushes-nothing");
    assert!(st.dst_col == st0.dst_col && st.src_id == st0.src_id && st.src_line == st0.src_line
        && st.src_col == st0.src_col && st.name_id == st0.name_id, "C02/empty-segment-keeps-state");
    forget(res);
    forget(tokens);
}

// ---------------------------------------------------------------------------
// C12: the streaming header stripper and the slice header stripper agree for every
// input and every chunking of the stream.
struct ChunkReader<'a> {
    data: &'a [u8],
    pos: usize,
    reads: u32,
    short_reads: u32,
}

impl<'a> Read for ChunkReader<'a> {
    fn read(&mut self, buf: &mut [u8]) -> io::Result<usize> {
        let rem = self.data.len() - self.pos;
        if rem == 0 || buf.is_empty() {
            return Ok(0);
        }
        // the chunking is the solver's choice: any 1..=min(rem, buf.len()) bytes
        let k: usize = kani::any();
        kani::assume(k >= 1 && k <= rem && k <= buf.len());
        let mut i = 0;
        while i < k {
            buf[i] = self.data[self.pos + i];
            i += 1;
        }
        self.pos += k;
        self.reads += 1;
        if k < rem && k < buf.len() {
            self.short_reads += 1;
        }
        Ok(k)
    }
}

fn c12_hdr_body<const N: usize, const B: usize>() {
    let data: [u8; N] = kani::any();
    // slice path
    let sres = strip_junk_header(&data);
    let (s_ok, s_start) = match &sres {
        Ok(rest) => (true, N - rest.len()),
        Err(_) => (false, 0),
    };
    forget(sres);
    // reader path
    let mut rdr = StripHeaderReader::new(ChunkReader { data: &data, pos: 0, reads: 0, short_reads: 0 });
    let mut out = [0u8; N];
    let mut n_out = 0usize;
    let mut r_ok = true;
    let mut calls = 0;
    let mut finished = false;
    while calls < N + 2 {
        // caller buffer of B bytes (concrete per harness instance); how many bytes each
        // inner read delivers (1..=B) is the solver's choice
        let want: usize = B;
        let mut buf = [0u8; B];
        let r = rdr.read(&mut buf[..]);
        match r {
            Ok(0) => {
                finished = true;
                break;
            }
            Ok(k) => {
                assert!(k <= want, "C12/read-returns-at-most-buffer-size");
                let mut i = 0;
                while i < k {
                    assert!(n_out < N, "C12/reader-never-produces-more-than-input");
                    out[n_out] = buf[i];
                    n_out += 1;
                    i += 1;
                }
            }
            Err(e) => {
                forget(e);
                r_ok = false;
                finished = true;
                break;
            }
        }
        calls += 1;
    }
    assert!(finished, "verif: harness bound on the number of reads too small");
    assert!(r_ok == s_ok, "C12/reader-and-slice-fail-together");
    if r_ok && s_ok {
        // the slice path keeps the '\n' that ends the header (the JSON parser skips it)
        let had_header = s_start > 0 || (N > 0 && is_junk_json(data[0]));
        let mut exp_start = s_start;
        if had_header && exp_start < N && data[exp_start] == b'\n' {
            exp_start += 1;
        }
        assert!(n_out == N - exp_start, "C12/reader-output-length-matches-slice");
        let mut i = 0;
        while i < n_out {
            assert!(out[i] == data[exp_start + i], "C12/reader-output-bytes-match-slice");
            i += 1;
        }
    }
    let short = rdr.r.short_reads;
    let reads = rdr.r.reads;
    if N >= 3 {
        kani::cover!(s_ok && is_junk_json(data[0]) && data[1] == b'\n' && n_out == N - 2, "header ends with LF, payload follows");
        kani::cover!(!s_ok, "bare CR rejected");
        kani::cover!(s_ok && !is_junk_json(data[0]) && n_out == N, "no header");
        kani::cover!(short >= 1, "inner reader returned a short read");
        kani::cover!(reads >= 3, "three inner reads");
        kani::cover!(s_ok && is_junk_json(data[0]) && data[1] == b'\r' && data[2] == b'\n', "CRLF header");
    }
    forget(rdr);
}

macro_rules! c12_hdr {
    ($name:ident, $n:literal, $b:literal, $u:literal) => {
        #[kani::proof]
        #[kani::unwind($u)]
        fn $name() {
            c12_hdr_body::<$n, $b>()
        }
    };
}
c12_hdr!(c12_hdr_n0_b2, 0, 2, 4);
c12_hdr!(c12_hdr_n1_b2, 1, 2, 4);
c12_hdr!(c12_hdr_n2_b2, 2, 2, 5);
c12_hdr!(c12_hdr_n3_b2, 3, 2, 6);
c12_hdr!(c12_hdr_n3_b3, 3, 3, 6);
c12_hdr!(c12_hdr_n4_b2, 4, 2, 7);
c12_hdr!(c12_hdr_n4_b3, 4, 3, 7);
c12_hdr!(c12_hdr_n5_b3, 5, 3, 8);

// ---------------------------------------------------------------------------
// C02: kind dispatch, debug-id precedence, index sections (RawSourceMap values built
// here, i.e. what serde_json hands to decode_common).
use crate::jsontypes::{RawSection, RawSectionOffset};
use debugid::DebugId;

fn empty_rsm() -> RawSourceMap {
    RawSourceMap {
        version: Some(3),
        file: None,
        sources: None,
        source_root: None,
        sources_content: None,
        sections: None,
        names: None,
        range_mappings: None,
        mappings: None,
        ignore_list: None,
        x_facebook_offsets: None,
        x_metro_module_paths: None,
        x_facebook_sources: None,
        debug_id: None,
        _debug_id_new: None,
    }
}

fn did(tag: u8) -> DebugId {
    // DebugId is a 32-byte repr(C, packed) value; byte 0 is the first UUID byte
    let mut raw = [0u8; 32];
    raw[0] = tag;
    unsafe { std::mem::transmute::<[u8; 32], DebugId>(raw) }
}

// one harness per (concrete) combination of the two keys: symbolic presence would make
// CBMC explore the recursive drop glue of RawSourceMap -> RawSection -> Box<RawSourceMap>
fn c02_dispatch_body(has_sections: bool, has_fb: bool) {
    let mut rsm = empty_rsm();
    if has_sections {
        rsm.sections = Some(Vec::new());
    }
    if has_fb {
        rsm.x_facebook_sources = Some(Vec::new());
    }
    let r = decode_common(rsm);
    assert!(r.is_ok(), "C02/empty-document-decodes");
    if let Ok(ref m) = r {
        let kind = match m {
            DecodedMap::Regular(_) => 0,
            DecodedMap::Index(_) => 1,
            DecodedMap::Hermes(_) => 2,
        };
        let want = if has_sections { 1 } else if has_fb { 2 } else { 0 };
        assert!(kind == want, "C02/kind-dispatch-sections-then-facebook-sources-then-regular");
    }
    forget(r);
}

#[kani::proof]
#[kani::unwind(4)]
fn c02_dispatch_regular() {
    c02_dispatch_body(false, false)
}

#[kani::proof]
#[kani::unwind(4)]
fn c02_dispatch_index() {
    c02_dispatch_body(true, false)
}

#[kani::proof]
#[kani::unwind(4)]
fn c02_dispatch_hermes() {
    c02_dispatch_body(false, true)
}

#[kani::proof]
#[kani::unwind(4)]
fn c02_dispatch_both() {
    c02_dispatch_body(true, true)
}

#[kani::proof]
#[kani::unwind(34)]
fn c02_debugid() {
    let mut rsm = empty_rsm();
    let a: bool = kani::any();
    let b: bool = kani::any();
    let ta: u8 = kani::any();
    let tb: u8 = kani::any();
    if a {
        rsm.debug_id = Some(did(ta));
    }
    if b {
        rsm._debug_id_new = Some(did(tb));
    }
    let r = decode_regular(rsm);
    assert!(r.is_ok(), "C02/empty-document-decodes");
    if let Ok(ref sm) = r {
        let got = sm.get_debug_id();
        let want = if a { Some(did(ta)) } else if b { Some(did(tb)) } else { None };
        assert!(got == want, "C02/debug_id-wins-over-debugId");
        kani::cover!(a && b && ta != tb, "both keys present and different");
        kani::cover!(!a && b, "only debugId");
    }
    forget(r);
}

// ---------------------------------------------------------------------------
// C07 (thorough): decode_rmi places bit k of base64 digit j at flag index 6*j + k
// (little-endian within the digit, per the range-mappings proposal); foreign
// characters are refused.
fn c07_rmi_decode_body<const N: usize>() {
    let t: [u8; N] = kani::any();
    let mut i = 0;
    while i < N {
        kani::assume(t[i] < 0x80);
        i += 1;
    }
    let mut bv: BitVec<u8, Lsb0> = BitVec::new();
    let r = decode_rmi(as_str(&t), &mut bv);
    let mut foreign = false;
    let mut i = 0;
    while i < N {
        if crate::vlq::verif_h::ref_b64(t[i]) < 0 {
            foreign = true;
        }
        i += 1;
    }
    assert!(r.is_ok() == !foreign, "C07/rmi-decode-accepts-exactly-base64");
    if r.is_ok() {
        assert!(bv.len() == 6 * N, "C07/rmi-decode-six-flags-per-digit");
        let mut k = 0;
        while k < 6 * N {
            let d = crate::vlq::verif_h::ref_b64(t[k / 6]);
            let want = (d >> (k % 6)) & 1 == 1;
            let got = bv.get(k).map(|b| *b).unwrap_or(false);
            assert!(got == want, "C07/rmi-decode-bit-layout");
            k += 1;
        }
        assert!(bv.get(6 * N).is_none(), "C07/rmi-decode-no-flag-past-the-digits");
    }
    kani::cover!(r.is_ok() && bv.get(5).map(|b| *b).unwrap_or(false), "bit 5 of the first digit set");
    kani::cover!(foreign, "foreign character");
    forget(r);
    forget(bv);
}

#[kani::proof]
#[kani::unwind(9)]
fn c07_rmi_decode_len1() {
    c07_rmi_decode_body::<1>()
}

#[kani::proof]
#[kani::unwind(15)]
fn c07_rmi_decode_len2() {
    c07_rmi_decode_body::<2>()
}


// ---------------------------------------------------------------------------
// C02 / C07: the body of the per-LINE loop of decode_regular (per-line column reset,
// the real `line.split(',').enumerate()` header, empty-segment skipping), lifted from
// /repo, on tiny symbolic lines made of ',' and single-digit 1-field segments.
// `decode_rmi` is shadowed by a mock reading one base64 digit (the real one is decided
// by c07_rmi_decode_*).
#[allow(unused_assignments, unused_mut, unused_variables, unreachable_code, clippy::never_loop)]
fn line_step(line: &str, rmi_str: &str, dst_line: usize, prev_dst_col: u32, tokens: &mut Vec<RawToken>) -> Result<()> {
    fn decode_rmi(rmi_str: &str, val: &mut MockRmi) -> Result<()> {
        let b = rmi_str.as_bytes();
        val.len = 6 * b.len();
        val.bits = 0;
        if b.len() == 1 {
            let d = crate::vlq::verif_h::ref_b64(b[0]);
            if d < 0 {
                return Err(Error::InvalidBase64(b[0] as char));
            }
            val.bits = d as u8;
        }
        Ok(())
    }
    let mut dst_col = prev_dst_col; // whatever the previous line left behind
    let mut src_id = 0;
    let mut src_line = 0;
    let mut src_col = 0;
    let mut name_id = 0;
    let names = LenOnly(0);
    let sources = LenOnly(0);
    let mut nums: Vec<i64> = Vec::with_capacity(16);
    let mut rmi = MockRmi { bits: 0, len: 0 };
    for _once in 0..1 {
        /*@LIFT decoder_line_body@*/
    }
    forget(nums);
    Ok(())
}

fn c02_line_body<const N: usize>() {
    let ln: [u8; N] = kani::any();
    let mut i = 0;
    while i < N {
        let d = crate::vlq::verif_h::ref_b64(ln[i]);
        kani::assume(ln[i] == b',' || (d >= 0 && d < 32));
        i += 1;
    }
    let rm: [u8; 1] = kani::any();
    kani::assume(crate::vlq::verif_h::ref_b64(rm[0]) >= 0);
    let has_rm: bool = kani::any();
    let dst_line: u32 = kani::any();
    let prev_col: u32 = kani::any();
    let mut tokens: Vec<RawToken> = Vec::with_capacity(8);
    let rm_s = if has_rm { as_str(&rm) } else { "" };
    let res = line_step(as_str(&ln), rm_s, dst_line as usize, prev_col, &mut tokens);
    let ok = res.is_ok();
    forget(res);
    // independent reading of one line: segments are separated by ','; an empty segment is
    // skipped but still counts for the index within the line; a single digit is a 1-field
    // segment (column delta); two or three digits in a row are 2 or 3 fields: malformed
    let mut exp = [(0u32, false); N];
    let mut ne = 0usize;
    let mut bad = false;
    let mut col = 0i64;
    let mut seg_index = 0usize;
    let mut seg_len = 0usize;
    let mut i = 0;
    while i < N {
        if ln[i] == b',' {
            seg_index += 1;
            seg_len = 0;
        } else {
            seg_len += 1;
            if seg_len >= 2 {
                bad = true;
            } else {
                let d = crate::vlq::verif_h::ref_b64(ln[i]) as i64;
                col += if d & 1 == 1 { -(d >> 1) } else { d >> 1 };
                if col < 0 {
                    bad = true;
                }
                let flag = has_rm && seg_index < 6 && (crate::vlq::verif_h::ref_b64(rm[0]) >> seg_index) & 1 == 1;
                exp[ne] = (col as u32, flag);
                ne += 1;
            }
        }
        i += 1;
    }
    if !bad {
        assert!(ok, "C02/line-well-formed-line-decodes");
        assert!(tokens.len() == ne, "C02/line-one-token-per-non-empty-segment");
        let mut k = 0;
        while k < ne {
            if k < tokens.len() {
                assert!(tokens[k].dst_line == dst_line, "C02/line-tokens-carry-the-line-number");
                assert!(tokens[k].dst_col == exp[k].0, "C02/line-generated-column-restarts-at-zero-and-accumulates");
                assert!(tokens[k].src_id == !0 && tokens[k].name_id == !0, "C02/line-one-field-no-source-no-name");
                assert!(tokens[k].is_range == exp[k].1, "C07/line-range-flag-by-index-within-line");
            }
            k += 1;
        }
    }
    if N >= 2 {
        kani::cover!(!bad && ne >= 1 && ln[0] == b',' && prev_col > 0, "line starts with an empty segment after a non-zero column");
        kani::cover!(!bad && ne == 2, "two tokens on the line");
        kani::cover!(!bad && ne >= 1 && exp[ne - 1].1 && ln[0] == b',', "range flag counted past an empty segment");
        kani::cover!(bad && !ok, "malformed line rejected");
    }
    forget(tokens);
}

macro_rules! c02_line {
    ($name:ident, $n:literal, $u:literal) => {
        #[kani::proof]
        #[kani::unwind($u)]
        #[kani::stub(std::vec::Vec::push, crate::vstubs::vec_push)]
        fn $name() {
            c02_line_body::<$n>()
        }
    };
}
c02_line!(c02_line_n1, 1, 5);
c02_line!(c02_line_n2, 2, 6);
c02_line!(c02_line_n3, 3, 7);
c02_line!(c02_line_n4, 4, 8);

// Kani harnesses for src/decoder.rs (child module `verif_h_idx` of `crate::decoder`).
//
// C08: "sections sorted by offset on load".  decode_index whole does not finish (recursive
// drop glue of RawSection, DESIGN.md section 2), so the one statement that orders the
// sections is lifted textually from /repo/src/decoder.rs at run time and run (real std
// sort, real SourceMapSection) on every vector of exactly N map-less sections.
use super::*;
use std::mem::forget;

#[allow(unused_mut)]
fn order_sections(mut sections: Vec<SourceMapSection>) -> Vec<SourceMapSection> {
    /*@LIFT index_sections_sort@*/
    sections
}

fn body<const N: usize>() {
    let mut offs = [(0u32, 0u32); N];
    let mut v: Vec<SourceMapSection> = Vec::with_capacity(N);
    let mut i = 0;
    while i < N {
        offs[i] = (kani::any(), kani::any());
        v.push(SourceMapSection::new(offs[i], None, None));
        i += 1;
    }
    let out = order_sections(v);
    assert!(out.len() == N, "C08/load-keeps-every-section");
    let mut i = 1;
    while i < N && i < out.len() {
        assert!(out[i - 1].get_offset() <= out[i].get_offset(), "C08/load-sections-ordered-by-line-then-column");
        i += 1;
    }
    // the result is a permutation of the input
    let mut i = 0;
    while i < N {
        let mut a = 0;
        let mut b = 0;
        let mut j = 0;
        while j < N && j < out.len() {
            if offs[j] == offs[i] {
                a += 1;
            }
            if out[j].get_offset() == offs[i] {
                b += 1;
            }
            j += 1;
        }
        assert!(a == b, "C08/load-ordering-permutes-the-sections");
        i += 1;
    }
    kani::cover!(offs[0] > offs[N - 1], "given out of order");
    kani::cover!(offs[0].0 == offs[N - 1].0 && offs[0].1 > offs[N - 1].1, "same line, later column first");
    forget(out);
}

#[kani::proof]
#[kani::unwind(6)]
fn c08_load_sorted_n2() {
    body::<2>()
}

#[kani::proof]
#[kani::unwind(7)]
fn c08_load_sorted_n3() {
    body::<3>()
}

#[kani::proof]
#[kani::unwind(8)]
fn c08_load_sorted_n4() {
    body::<4>()
}

#!/bin/bash
# usage: tools/run_seeded.sh <seeded-id> <PROP> [check args...]
# applies /verif/seeded/<id>/patch.diff to /repo, runs ./check <PROP> ..., restores /repo.
set -u
id=$1; prop=$2; shift 2
cd /verif
if ! git -C /repo diff --quiet; then echo "/repo has uncommitted changes"; exit 3; fi
git -C /repo apply /verif/seeded/$id/patch.diff || { echo "patch does not apply"; exit 3; }
./check $prop "$@" 2>&1 | tee /var/tmp/seeded-$id-$prop.log | grep -E "VIOLATION|KNOWN-FINDING|MACHINERY|queries discharged|FAILED|TIMEOUT|OOM"
rc=${PIPESTATUS[0]}
git -C /repo checkout -- .
echo "seeded=$id property=$prop exit=$rc"
exit $rc

#!/bin/bash
# usage: tools/eval_seeded.sh <seeded-id> <PROP> [check args]
# Evaluates a seeded change WITHOUT touching /repo: copies /repo's working tree, applies the
# patch to the copy and points the driver at it (VERIF_REPO); evidence/replays are diverted.
id=$1; prop=$2; shift 2
w=/var/tmp/seeded-eval-$id-$prop${EVAL_SUFFIX:-}
rm -rf $w; mkdir -p $w/evidence $w/replays
rsync -a --exclude /target --exclude .git /repo/ $w/repo/
( cd $w/repo && patch -p1 -s < /verif/seeded/$id/patch.diff ) || { echo "$id: patch does not apply"; exit 3; }
cd /verif
VERIF_REPO=$w/repo VERIF_EVIDENCE_DIR=$w/evidence VERIF_REPLAY_DIR=$w/replays ./check $prop "$@" > $w/log.txt 2>&1
rc=$?
python3 - "$id" "$prop" "$rc" "$w/log.txt" <<'PY'
import json, re, sys
sid, prop, rc, logp = sys.argv[1:5]
text = open(logp, errors='replace').read()
viol = ' '.join(re.sub(r'values=.*', '', l).strip() for l in text.splitlines() if l.startswith('  harness='))
print(json.dumps({'seeded': sid, 'property': prop, 'exit': int(rc), 'violations': viol,
                  'machinery_errors': text.count('MACHINERY-ERROR'), 'summary': text.strip().splitlines()[-1] if text.strip() else ''}))
PY
rm -rf $w/repo

#!/bin/bash
# usage: confirm_seeded.sh <worktree> <k> <seeded-id> <property>
# Confirms independently: demo passes on clean tree; with the patch the existing suite passes and the demo fails.
wt=$1; k=$2; id=$3; prop=$4
cd $wt || exit 3
export CARGO_NET_OFFLINE=true
git checkout -q -- src tests Cargo.toml 2>/dev/null; rm -f tests/seeded_demo.rs
cp SEEDED/demo_$k.rs tests/seeded_demo.rs
clean_demo=$(cargo test --offline --target-dir $wt/target --features ram_bundle --test seeded_demo 2>&1 | grep -E "^test result" | tail -1)
git apply SEEDED/patch_$k.diff || { echo "$id: patch does not apply"; exit 3; }
rm -f tests/seeded_demo.rs
suite=$(cargo test --offline --target-dir $wt/target 2>&1 | grep -E "^test result" | awk '{p+=$4; f+=$6} END {print "passed="p" failed="f}')
cp SEEDED/demo_$k.rs tests/seeded_demo.rs
patched_demo=$(cargo test --offline --target-dir $wt/target --features ram_bundle --test seeded_demo 2>&1 | grep -E "^test result" | tail -1)
git checkout -q -- src tests Cargo.toml 2>/dev/null; rm -f tests/seeded_demo.rs
echo "$id: clean_demo=[$clean_demo] suite_with_patch=[$suite] patched_demo=[$patched_demo]"
mkdir -p /verif/seeded/$id
cp SEEDED/patch_$k.diff /verif/seeded/$id/patch.diff
cp SEEDED/demo_$k.rs /verif/seeded/$id/demo.rs
cp SEEDED/meta_$k.md /verif/seeded/$id/agent_notes.md
python3 - "$id" "$prop" "$clean_demo" "$suite" "$patched_demo" <<'PY'
import json,sys
id,prop,clean,suite,patched=sys.argv[1:6]
json.dump({"id":id,"property":prop,"source":"independent sub-agent given only the property text and a scratch worktree",
 "confirmed":{"demo_on_clean_tree":clean,"existing_suite_with_patch":suite,"demo_with_patch":patched,
 "how":"tools/confirm_seeded.sh: demo copied to tests/seeded_demo.rs, cargo test --offline in a scratch worktree of /repo HEAD, with and without patch.diff"}},
 open('/verif/seeded/%s/meta.json'%id,'w'),indent=1)
PY

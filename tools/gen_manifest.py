#!/usr/bin/env python3
"""Regenerates /verif/MANIFEST.json from vlib/plan.py (claimed) and vlib/na.py (not applicable)."""
import json
import os
import sys

sys.path.insert(0, os.path.dirname(os.path.dirname(os.path.abspath(__file__))))
from vlib import plan, na  # noqa: E402

VERIF = os.path.dirname(os.path.dirname(os.path.abspath(__file__)))

checks = []
for pid in sorted(plan.PROPS):
    spec = plan.PROPS[pid]
    nq = sum(1 for h in spec['harnesses'] if h['tier'] == 'quick')
    nt = len(spec['harnesses'])
    checks.append({
        'property_id': pid,
        'quick_cmd': './check %s --tier quick' % pid,
        'thorough_cmd': './check %s --tier thorough' % pid,
        'evidence_file': '/verif/evidence/%s.json' % pid,
        'replay_cmd_template': './check --replay {path}',
        'engine': 'kani',
        'level_claimed': {
            'category': 'model_checking',
            'text': spec.get('level_text') or (
                'Bounded, solver-decided: %d (quick) / %d (thorough) Kani harnesses over the real compiled code; each is one '
                'SAT query covering every value of its symbolic inputs within the stated size bounds, with unwinding '
                'assertions on. Nothing outside the bounds and the listed "outside" items is claimed.' % (nq, nt)),
            'design_ref': 'DESIGN.md section 7, %s' % pid,
        },
        'level_note': '; '.join(spec.get('assumptions', []))[:1500],
        'technique': spec.get('technique') or 'bounded model checking of the compiled Rust (Kani 0.68 / CBMC 6.11 / CaDiCaL) with harness-local '
                     'reference oracles' + ('; loop bodies lifted textually from /repo at run time' if any(
                         h['module'] in ('decoder_seg', 'decoder_line', 'hermes_fm', 'hermes_line', 'types_flat')
                         for h in spec['harnesses']) else ''),
    })

manifest = {
    'version': 1,
    'setup_cmd': './check setup',
    'hooks': {
        'guard': 'sourcemap_verif',
        'enable': "RUSTFLAGS='--cfg sourcemap_verif' (set by ./check for the C16 harnesses only; every other harness builds /repo unmodified)",
        'baseline_off_cmd': 'cd /repo && cargo test --workspace --no-fail-fast --offline',
        'source_commits': na.HOOK_COMMITS,
        'add_only': True,
    },
    'engines': [{
        'name': 'kani',
        'path': '/verif/check',
        'serves_properties': sorted(plan.PROPS),
        'kind_free_text': 'Python driver: copies /repo working tree to a scratch dir, injects /verif/harness/h_<module>.rs as child '
                          'modules (cfg(kani)), lifts loop bodies named in vlib/plan.py LIFTS from the current source, runs one '
                          '`cargo kani --harness` per query under time/memory caps, replays counterexamples natively '
                          '(cargo kani playback) before reporting',
    }],
    'checks': checks,
    'not_applicable': [{'property_id': k, 'reason': v} for k, v in sorted(na.NOT_APPLICABLE.items()) if k not in plan.PROPS],
    'notes': 'See DESIGN.md. known_findings.json lists repaired defects (fixed: entries) and recorded findings.',
}
with open(os.path.join(VERIF, 'MANIFEST.json'), 'w') as f:
    json.dump(manifest, f, indent=1)
print('MANIFEST.json: %d checks, %d not applicable' % (len(checks), len(manifest['not_applicable'])))

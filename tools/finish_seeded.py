#!/usr/bin/env python3
"""usage: finish_seeded.py <id> <property> <eval.json> <needs-to-manifest text>
Adds needs_to_manifest and check_result to seeded/<id>/meta.json and appends a row to seeded/RESULTS.md."""
import json, re, sys
sid, prop, evalp, needs = sys.argv[1:5]
ev = json.loads(open(evalp).read().strip().splitlines()[-1])
mp = '/verif/seeded/%s/meta.json' % sid
m = json.load(open(mp))
harn = sorted(set(re.findall(r'harness=(\S+)', ev['violations'])))
labels = sorted(set(l for grp in re.findall(r"labels=\[(.*?)\]", ev['violations']) for l in re.findall(r"'([^']*)'", grp)))
if ev['exit'] == 1:
    outcome = 'VIOLATION reported (exit 1)'
elif ev['exit'] == 0:
    outcome = 'not detected (exit 0)'
else:
    outcome = 'machinery error (exit %d): never a pass' % ev['exit']
m['needs_to_manifest'] = needs
m['check_result'] = {'command': 'tools/eval_seeded.sh %s %s   (= ./check %s --tier quick against a copy of /repo with patch.diff applied)' % (sid, prop, prop),
                     'exit': ev['exit'], 'outcome': outcome, 'harnesses_reporting': harn, 'labels': labels, 'summary': ev['summary']}
if 'evalsub' in evalp:
    m['check_result']['note'] = 'evalsub: quick check restricted with --only to a subset of its harnesses (session time limit); the full quick check runs a superset'
json.dump(m, open(mp, 'w'), indent=1)
print('| %s | %s | %s | %s | %s |' % (sid, needs, outcome, ', '.join(harn[:4]) + (' …' if len(harn) > 4 else ''), ', '.join(labels)))

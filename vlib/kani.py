"""Running Kani on an injected scratch copy of /repo and parsing its verdicts."""
import os
import re
import resource
import shutil
import signal
import subprocess
import time

from . import lifter

VERIF = os.path.dirname(os.path.dirname(os.path.abspath(__file__)))
REPO = os.environ.get('VERIF_REPO', '/repo')
HARNESS_DIR = os.path.join(VERIF, 'harness')
CACHE_DIR = os.path.join(VERIF, '.cache', 'kani-deps')
SCRATCH_ROOT = os.environ.get('VERIF_SCRATCH', '/var/tmp')

MODULE_FILES = {
    'vlq': 'src/vlq.rs',
    'decoder': 'src/decoder.rs',
    'encoder': 'src/encoder.rs',
    'types': 'src/types.rs',
    'utils': 'src/utils.rs',
    'sourceview': 'src/sourceview.rs',
    'hermes': 'src/hermes.rs',
    'ram_bundle': 'src/ram_bundle.rs',
    'builder': 'src/builder.rs',
}

# harness file key -> (host module of the crate, name of the injected child module,
#                      harness files it needs, has lifted fragments)
HFILES = {
    'vlq': ('vlq', 'verif_h', [], False),
    'utils': ('utils', 'verif_h', [], False),
    'types': ('types', 'verif_h', [], False),
    'types_flat': ('types', 'verif_h_flat', ['types'], True),
    'encoder': ('encoder', 'verif_h', [], False),
    'encoder_rmi': ('encoder', 'verif_h_rmi', [], True),
    'decoder': ('decoder', 'verif_h', ['vlq'], False),
    'decoder_idx': ('decoder', 'verif_h_idx', [], True),
    'decoder_seg': ('decoder', 'verif_h_seg', ['vlq', 'decoder'], True),
    'decoder_line': ('decoder', 'verif_h_line', ['vlq', 'decoder'], True),
    'sourceview': ('sourceview', 'verif_h', [], False),
    'hermes': ('hermes', 'verif_h', ['vlq', 'types'], False),
    'hermes_fm': ('hermes', 'verif_h_fm', ['vlq'], True),
    'hermes_line': ('hermes', 'verif_h_line', ['vlq'], True),
    'ram_bundle': ('ram_bundle', 'verif_h', [], False),
}


def group_of(hfile):
    """Build group: files with lifted fragments are built in a scratch copy of their own."""
    return hfile if HFILES[hfile][3] else 'base'


def qualified_name(hfile, harness):
    host, modname, _, _ = HFILES[hfile]
    return '%s::%s::%s' % (host, modname, harness)


def with_deps(files):
    out = []

    def add(f):
        for d in HFILES[f][2]:
            add(d)
        if f not in out:
            out.append(f)
    for f in files:
        add(f)
    return out


class MachineryError(Exception):
    pass


def env_for_kani(extra_rustflags=None):
    env = dict(os.environ)
    env['CARGO_NET_OFFLINE'] = 'true'
    env.pop('RUSTUP_TOOLCHAIN', None)
    env['CARGO_TERM_COLOR'] = 'never'
    if extra_rustflags:
        env['RUSTFLAGS'] = (env.get('RUSTFLAGS', '') + ' ' + extra_rustflags).strip()
    return env


def make_scratch(tag):
    d = os.path.join(SCRATCH_ROOT, 'verif-sm-%s-%d' % (tag, os.getpid()))
    if os.path.exists(d):
        shutil.rmtree(d)
    os.makedirs(d)
    return d


def copy_repo(scratch, name='repo'):
    dst = os.path.join(scratch, name)
    subprocess.check_call(['rsync', '-a', '--exclude', '/target', '--exclude', '.git',
                           REPO + '/', dst + '/'])
    return dst


PLACEHOLDER = re.compile(r'/\*@LIFT ([A-Za-z0-9_]+)@\*/')


def inject(repo_copy, modules, lift_specs, extra_src=None):
    """Append harness child modules to the scratch copy; returns lift records."""
    lifts = {}
    src = os.path.join(repo_copy, 'src')
    lib = os.path.join(src, 'lib.rs')
    with open(lib, encoding='utf-8') as f:
        lib_text = f.read()
    shutil.copy(os.path.join(HARNESS_DIR, 'vstubs.rs'), os.path.join(src, 'verif_vstubs.rs'))
    lib_text = ('#![cfg_attr(kani, feature(allocator_api))]\n' + lib_text +
                '\n#[cfg(kani)]\n#[path = "verif_vstubs.rs"]\npub(crate) mod vstubs;\n')
    with open(lib, 'w', encoding='utf-8') as f:
        f.write(lib_text)
    for m in with_deps(modules):
        host, modname, _, _ = HFILES[m]
        hfile = os.path.join(HARNESS_DIR, 'h_%s.rs' % m)
        with open(hfile, encoding='utf-8') as f:
            htext = f.read()

        def sub(mo):
            name = mo.group(1)
            if name not in lift_specs:
                raise MachineryError('no lift spec named %s' % name)
            if name not in lifts:
                try:
                    lifts[name] = lifter.lift(REPO, lift_specs[name])
                except lifter.LiftError as e:
                    raise MachineryError('lifting %s failed: %s' % (name, e))
            return lifts[name]['text']
        htext = PLACEHOLDER.sub(sub, htext)
        if extra_src and m in extra_src:
            htext += '\n' + extra_src[m]
        gen = os.path.join(src, 'verif_h_%s.rs' % m)
        with open(gen, 'w', encoding='utf-8') as f:
            f.write(htext)
        target = os.path.join(repo_copy, MODULE_FILES[host])
        with open(target, 'a', encoding='utf-8') as f:
            f.write('\n#[cfg(kani)]\n#[path = "verif_h_%s.rs"]\npub(crate) mod %s;\n' % (m, modname))
    return lifts


def seed_target(target_dir):
    if os.path.isdir(CACHE_DIR) and not os.path.exists(target_dir):
        subprocess.call(['cp', '-a', CACHE_DIR, target_dir])
    else:
        os.makedirs(target_dir, exist_ok=True)


def _limits(mem_gb):
    def f():
        os.setsid()
        lim = int(mem_gb * (1 << 30))
        resource.setrlimit(resource.RLIMIT_AS, (lim, lim))
    return f


def run_cmd(cmd, cwd, env, timeout_s, mem_gb, log_path):
    t0 = time.time()
    with open(log_path, 'wb') as log:
        p = subprocess.Popen(cmd, cwd=cwd, env=env, stdout=log, stderr=subprocess.STDOUT,
                             preexec_fn=_limits(mem_gb))
        timed_out = False
        try:
            p.wait(timeout=timeout_s)
        except subprocess.TimeoutExpired:
            timed_out = True
            try:
                os.killpg(p.pid, signal.SIGKILL)
            except ProcessLookupError:
                pass
            p.wait()
    return p.returncode, timed_out, time.time() - t0


CHECK_RE = re.compile(r'^Check (\d+): (.+)$')
NOISE = ('aborting path on assume(false)', 'Unwinding loop ', 'Not unwinding loop ',
         'Unwinding recursion ', 'Not unwinding recursion')


def parse_log(path):
    out = {
        'verdict': None, 'checks': [], 'failed': [], 'covers': [], 'stubs': [],
        'symex_s': None, 'solver_s': 0.0, 'vccs': None, 'vccs_remaining': None,
        'steps': None, 'verification_time_s': None, 'oom': False, 'compile_error': False,
        'unsupported': [], 'harness_found': False, 'undetermined': [],
    }
    cur = None
    with open(path, errors='replace') as f:
        for line in f:
            line = line.rstrip('\n')
            if line.startswith(NOISE):
                continue
            m = CHECK_RE.match(line)
            if m:
                cur = {'id': int(m.group(1)), 'name': m.group(2), 'status': None,
                       'description': '', 'location': ''}
                out['checks'].append(cur)
                continue
            s = line.strip()
            if cur is not None and s.startswith('- Status:'):
                cur['status'] = s.split(':', 1)[1].strip()
                continue
            if cur is not None and s.startswith('- Description:'):
                cur['description'] = s.split(':', 1)[1].strip().strip('"')
                continue
            if cur is not None and s.startswith('- Location:'):
                cur['location'] = s.split(':', 1)[1].strip()
                continue
            if s.startswith('SUMMARY:'):
                cur = None
            if s.startswith('Checking harness'):
                out['harness_found'] = True
            if s.startswith('VERIFICATION:-'):
                out['verdict'] = s.split(':-', 1)[1].strip().split()[0]
            if s.startswith('Runtime Symex:'):
                out['symex_s'] = float(s.split(':')[1].strip().rstrip('s'))
            if s.startswith('Runtime decision procedure:'):
                try:
                    out['solver_s'] += float(s.split(':')[1].strip().rstrip('s'))
                except ValueError:
                    pass
            m2 = re.match(r'Generated (\d+) VCC\(s\), (\d+) remaining', s)
            if m2:
                out['vccs'] = int(m2.group(1))
                out['vccs_remaining'] = int(m2.group(2))
            m3 = re.match(r'size of program expression: (\d+) steps', s)
            if m3:
                out['steps'] = int(m3.group(1))
            if s.startswith('Verification Time:'):
                out['verification_time_s'] = float(s.split(':')[1].strip().rstrip('s'))
            if 'run out of memory' in s or 'std::bad_alloc' in s or 'Out of memory' in s:
                out['oom'] = True
            if s.startswith('- Stub:') or s.startswith('Stub:'):
                out['stubs'].append(s.split(':', 1)[1].strip())
            if s.startswith('error[') or s.startswith('error:') or 'could not compile' in s:
                out['compile_error'] = True
            if 'is not currently supported by Kani' in s:
                out['unsupported'].append(s)
    for c in out['checks']:
        name = c['name']
        if '.cover.' in name or name.endswith('.cover'):
            out['covers'].append(c)
        elif c['status'] == 'FAILURE':
            out['failed'].append(c)
        elif c['status'] in ('UNDETERMINED', 'ERROR'):
            out['undetermined'].append(c)
            if c['status'] == 'ERROR':
                out['oom'] = True
    return out


def loc_kind(location):
    """'harness' | 'repo' | 'other' for a Kani location string."""
    f = location.split(' in function')[0].strip()
    f = f.split(':')[0]
    if 'verif_h_' in f or 'verif_vstubs' in f or '/verif/harness' in f:
        return 'harness'
    if f.startswith('src/') and '..' not in f:
        return 'repo'
    return 'other'


def loc_function(location):
    if ' in function ' in location:
        return location.split(' in function ')[1].strip()
    return ''


def kani_cmd(harness, target_dir, extra=None):
    cmd = ['cargo', 'kani', '--features', 'ram_bundle', '-Z', 'stubbing',
           '--harness', harness, '--exact', '--target-dir', target_dir]
    if extra:
        cmd += extra
    return cmd

"""Properties not claimed, with the reason (DESIGN.md section 9)."""

HOOK_COMMITS = ['210a631', '881b99b']

NOT_APPLICABLE = {
    'C01': 'Both directions of the round trip go through serde_json, and the decode direction through decode_regular, which '
           'cannot be executed whole on symbolic input (4 configurations timed out / ran out of memory); the encoder half is '
           'claimed as C03, the decoder step as C02, the VLQ layer as C11.',
    'C09': 'rewrite is string-keyed FxHashMap interning plus prefix stripping over string pools; two symbolic-key inserts do not '
           'finish in 25 min (hashbrown SIMD group model), and with concrete keys nothing is left for the solver to decide.',
    'C13': 'Interning through FxHashMap<Arc<str>,u32>::entry and format!-based source-root joining over call histories on '
           'string pools: hash maps with symbolic keys and std::fmt are outside reach; nothing numeric remains.',
    'C17': 'Needs a symbolic-offset substring through the identifier scanner for every token of the backwards walk; four '
           'prototype configurations (down to a 14-byte line with the scanner stubbed and per-loop bounds) exceeded 20 min.',
    'C18': 'Discovery is BufReader::lines + String + starts_with over >= 22-byte texts; data URLs go through serde_json, '
           'base64-simd (runtime SIMD dispatch), format! and data_encoding: no layer is encodable within reach.',
    'C19': 'make_relative_path is split/filter/collect/sort/join over two symbolic strings: the smallest interesting size timed out '
           'whole (25 min, twice) and ran out of memory (14 GB) when only its tail was lifted.',
}

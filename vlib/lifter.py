"""Fragment lifting (DESIGN.md L1): extract the body of a block from Rust source text.

find_block(text, anchor_regex) -> (start, end, body) where body is the text
between the '{' that ends the anchored header and its matching '}' (exclusive).
The scanner is aware of line/block comments (nested), string literals, raw
strings, byte strings, char literals and lifetimes.
"""
import hashlib
import re


class LiftError(Exception):
    pass


def _skip_string(text, i):
    # text[i] == '"'
    i += 1
    n = len(text)
    while i < n:
        c = text[i]
        if c == '\\':
            i += 2
            continue
        if c == '"':
            return i + 1
        i += 1
    raise LiftError("unterminated string literal")


def _skip_raw_string(text, i):
    # text[i] == 'r', followed by #* and '"'
    j = i + 1
    hashes = 0
    while j < len(text) and text[j] == '#':
        hashes += 1
        j += 1
    if j >= len(text) or text[j] != '"':
        return None
    end = text.find('"' + '#' * hashes, j + 1)
    if end < 0:
        raise LiftError("unterminated raw string")
    return end + 1 + hashes


def _skip_char_or_lifetime(text, i):
    # text[i] == "'"
    n = len(text)
    if i + 1 < n and text[i + 1] == '\\':
        # escaped char literal
        j = i + 2
        while j < n and text[j] != "'":
            j += 1
        return j + 1
    if i + 2 < n and text[i + 2] == "'":
        return i + 3
    # multi-byte char literal like '👌'
    m = re.match(r"'[^'\\\n]'", text[i:i + 8])
    if m:
        return i + m.end()
    # lifetime
    return i + 1


def match_brace(text, open_idx):
    """text[open_idx] == '{' -> index of the matching '}'."""
    assert text[open_idx] == '{'
    depth = 0
    i = open_idx
    n = len(text)
    while i < n:
        c = text[i]
        if c == '/' and text.startswith('//', i):
            nl = text.find('\n', i)
            i = n if nl < 0 else nl + 1
            continue
        if c == '/' and text.startswith('/*', i):
            d = 1
            i += 2
            while i < n and d > 0:
                if text.startswith('/*', i):
                    d += 1
                    i += 2
                elif text.startswith('*/', i):
                    d -= 1
                    i += 2
                else:
                    i += 1
            continue
        if c == '"':
            i = _skip_string(text, i)
            continue
        if c == 'r' and (i == 0 or not (text[i - 1].isalnum() or text[i - 1] == '_')):
            r = _skip_raw_string(text, i)
            if r is not None:
                i = r
                continue
        if c == 'b' and i + 1 < n and text[i + 1] in '"\'' and not (i > 0 and (text[i - 1].isalnum() or text[i - 1] == '_')):
            i += 1
            continue
        if c == "'":
            i = _skip_char_or_lifetime(text, i)
            continue
        if c == '{':
            depth += 1
        elif c == '}':
            depth -= 1
            if depth == 0:
                return i
        i += 1
    raise LiftError("unbalanced braces")


def find_block(text, anchor, occurrence=0):
    ms = list(re.finditer(anchor, text, re.S))
    if len(ms) <= occurrence:
        raise LiftError("anchor not found: %r" % anchor)
    m = ms[occurrence]
    open_idx = text.find('{', m.end() - 1) if text[m.end() - 1] != '{' else m.end() - 1
    if open_idx < 0:
        raise LiftError("no block after anchor %r" % anchor)
    close_idx = match_brace(text, open_idx)
    body = text[open_idx + 1:close_idx]
    return open_idx + 1, close_idx, body


def lift(repo_root, spec):
    """spec: {file, anchor, occurrence?, strip?: [regex,...], expect?: [regex,...]}"""
    path = repo_root + '/' + spec['file']
    with open(path, encoding='utf-8') as f:
        text = f.read()
    if spec.get('mode') == 'regex':
        # a single statement: the whole match of the anchor is the lifted text
        ms = list(re.finditer(spec['anchor'], text, re.S))
        if len(ms) <= spec.get('occurrence', 0):
            raise LiftError("no statement matching %r in %s" % (spec['anchor'], spec['file']))
        m = ms[spec.get('occurrence', 0)]
        start, end, body = m.start(), m.end(), m.group(0)
    else:
        start, end, body = find_block(text, spec['anchor'], spec.get('occurrence', 0))
    if spec.get('mode') == 'stmt':
        # whole statement: from the start of the anchor match to the closing brace
        m = list(re.finditer(spec['anchor'], text, re.S))[spec.get('occurrence', 0)]
        start = m.start()
        body = text[start:end + 1]
        end = end + 1
    for pat in spec.get('expect', []):
        if not re.search(pat, body, re.S):
            raise LiftError("lifted block of %s lacks expected text %r" % (spec['file'], pat))
    line0 = text.count('\n', 0, start) + 1
    line1 = text.count('\n', 0, end) + 1
    return {
        'text': body,
        'file': spec['file'],
        'byte_range': [start, end],
        'line_range': [line0, line1],
        'sha256': hashlib.sha256(body.encode()).hexdigest(),
    }

"""Which harnesses decide which property, with their bounds and budgets.

H(name, module, tier, budget_s, mem_gb, bounds) -- one entry = one solver query.
budget_s is the wall-clock cap for the whole `cargo kani` invocation of that
harness (compile + symex + SAT); it is several times the measured time.
"""


def H(name, module, tier='quick', budget=600, mem=10, bounds='', measured=None, cfg=None,
      expect_fail_labels=None, extra=None):
    return {
        'name': name, 'module': module, 'tier': tier, 'budget_s': budget, 'mem_gb': mem,
        'bounds': bounds, 'measured_s': measured, 'cfg': cfg, 'extra': extra or [],
    }


# Lift specifications (DESIGN.md L1): anchors into /repo/src, regenerated every run.
LIFTS = {
}

PROPS = {}

S1 = 'S1: String::new/String::push/Vec::push replaced by fixed-capacity (48) versions that assert on overflow and never reallocate'

PROPS['C11'] = {
    'title': 'VLQ encoding and decoding are exact inverses and match the standard',
    'functions': ['vlq::parse_vlq_segment_into', 'vlq::generate_vlq_segment', 'vlq::encode_vlq',
                  'vlq::B64 (table)', 'vlq::B64_CHARS'],
    'harnesses': [
        H('c11_table', 'vlq', 'quick', 300, 6, 'all 256 byte values', 4),
        H('c11_roundtrip_1', 'vlq', 'quick', 900, 10, 'every i64 n with |n| < 2^62; unwind 15', 81),
        H('c11_roundtrip_2', 'vlq', 'quick', 900, 10, 'every pair (a,b) with |a|,|b| <= 2^32 through generate_vlq_segment; unwind 16', 51),
    ] + [
        H('c11_canon_len%d' % n, 'vlq', 'quick' if n <= 9 else 'thorough', 600, 8,
          'every canonical single-value text of exactly %d base64 digits' % n, 25) for n in range(1, 14)
    ] + [
        H('c11_ref_len%d' % n, 'vlq', 'quick' if n <= 4 else 'thorough', 600, 8,
          'every string of exactly %d alphabet characters (multi-value) vs reference reader' % n, 15)
        for n in (0, 1, 2, 3, 4, 5, 6, 8)
    ] + [
        H('c11_overflow_14', 'vlq', 'quick', 600, 8,
          '14 digits with 13 continuation digits, optionally after one complete value', 33),
    ],
    'assumptions': [
        'inputs range over the stated sets only; values with magnitude >= 2^62 are outside the property',
        S1,
        'reference reader (harness, flat loops) is the independent reading of the base64-VLQ standard',
    ],
    'trusted': ['Kani/CBMC/CaDiCaL', 'rustc MIR of the scratch copy == what cargo builds from /repo', S1],
    'outside': ['lists of 3+ values (the parser loop is value-agnostic; c11_ref covers up to 8 one-digit values)',
                'random longer strings', '13-digit texts whose payload needs more than 63 bits (only panic-freedom, C05)'],
}

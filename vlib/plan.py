"""Which harnesses decide which property, with their bounds and budgets.

H(name, module, tier, budget_s, mem_gb, bounds) -- one entry = one solver query.
budget_s is the wall-clock cap for the whole `cargo kani` invocation of that
harness (compile + symex + SAT); it is several times the measured time.
"""


def H(name, module, tier='quick', budget=600, mem=10, bounds='', measured=None, cfg=None,
      expect_fail_labels=None, extra=None, nocover=False, allow_uncovered=None):
    return {
        'name': name, 'module': module, 'tier': tier, 'budget_s': budget, 'mem_gb': mem,
        'bounds': bounds, 'measured_s': measured, 'cfg': cfg, 'extra': extra or [], 'nocover': nocover, 'allow_uncovered': allow_uncovered or [],
    }


# Lift specifications (DESIGN.md L1): anchors into /repo/src, regenerated every run.
LIFTS = {
    # body of the per-segment loop of decode_regular
    'decoder_segment_body': {
        'file': 'src/decoder.rs',
        'anchor': r"for\s*\(\s*line_index\s*,\s*segment\s*\)\s+in\s+line\s*\.split\(','\)\s*\.enumerate\(\)\s*\{",
        'expect': [r'parse_vlq_segment_into', r'tokens\.push'],
    },
    # body of the per-line loop of decode_regular (contains the whole per-segment loop)
    'decoder_line_body': {
        'file': 'src/decoder.rs',
        'anchor': r"for\s*\(\s*dst_line\s*,\s*\(\s*line\s*,\s*rmi_str\s*\)\s*\)\s+in\s+mappings.*?\.enumerate\(\)\s*\{",
        'expect': [r"split\(','\)", r'tokens\.push', r'decode_rmi', r'dst_col\s*=\s*0'],
    },
    # body of the per-mapping loop of the function-map decoder in decode_hermes
    'hermes_mapping_body': {
        'file': 'src/hermes.rs',
        'anchor': r"for\s+mapping\s+in\s+line_mapping\s*\.split\(','\)\s*\{",
        'expect': [r'parse_vlq_segment_into', r'mappings\.push'],
    },
    # body of the per-line loop of the function-map decoder (contains the per-mapping loop)
    'hermes_line_body': {
        'file': 'src/hermes.rs',
        'anchor': r"for\s+line_mapping\s+in\s+raw_mappings\s*\.split\(';'\)\s*\{",
        'expect': [r"split\(','\)", r'mappings\.push', r'let\s+mut\s+column\s*=\s*0'],
    },
    # body of the per-token loop of serialize_range_mappings
    'range_mappings_token_body': {
        'file': 'src/encoder.rs',
        'anchor': r"for\s*\(\s*idx\s*,\s*token\s*\)\s+in\s+sm\.tokens\(\)\.enumerate\(\)\s*\{",
        'expect': [r'token\.is_range\(\)', r'encode_rmi\(', r"buf\.push\(b';'\)"],
    },
    # the statement of decode_index that orders the sections on load
    'index_sections_sort': {
        'file': 'src/decoder.rs',
        'mode': 'regex',
        'anchor': r"sections\s*\.\s*sort\w*\s*\([^;]*\)\s*;",
        'expect': [r'sort'],
    },
    # body of the per-token loop of SourceMapIndex::flatten
    'flatten_token_body': {
        'file': 'src/types.rs',
        'anchor': r"for\s+token\s+in\s+map\.tokens\(\)\s*\{",
        'expect': [r'builder\.add\(', r'off_line'],
    },
}

PROPS = {}

S1 = 'S1: String::new/String::push/Vec::push replaced by fixed-capacity (48) versions that assert on overflow and never reallocate'

PROPS['C11'] = {
    'title': 'VLQ encoding and decoding are exact inverses and match the standard',
    'functions': ['vlq::parse_vlq_segment_into', 'vlq::generate_vlq_segment', 'vlq::encode_vlq',
                  'vlq::B64 (table)', 'vlq::B64_CHARS'],
    'harnesses': [
        H('c11_table', 'vlq', 'quick', 300, 6, 'all 256 byte values', 4),
        H('c11_roundtrip_1', 'vlq', 'quick', 900, 10, 'every i64 n with |n| < 2^62; unwind 15', 81),
        H('c11_roundtrip_2', 'vlq', 'quick', 900, 10, 'every pair (a,b) with |a|,|b| <= 2^32 through generate_vlq_segment; unwind 16', 51),
    ] + [
        H('c11_canon_len%d' % n, 'vlq', 'quick' if n <= 9 else 'thorough', 600, 8,
          'every canonical single-value text of exactly %d base64 digits' % n, 25) for n in range(1, 14)
    ] + [
        H('c11_ref_len%d' % n, 'vlq', 'quick' if n <= 4 else 'thorough', 600, 8,
          'every string of exactly %d alphabet characters (multi-value) vs reference reader' % n, 15)
        for n in (0, 1, 2, 3, 4, 5, 6, 8)
    ] + [
        H('c11_overflow_14', 'vlq', 'quick', 600, 8,
          '14 digits with 13 continuation digits, optionally after one complete value', 33),
    ],
    'assumptions': [
        'inputs range over the stated sets only; values with magnitude >= 2^62 are outside the property',
        S1,
        'reference reader (harness, flat loops) is the independent reading of the base64-VLQ standard',
    ],
    'trusted': ['Kani/CBMC/CaDiCaL', 'rustc MIR of the scratch copy == what cargo builds from /repo', S1],
    'outside': ['lists of 3+ values (the parser loop is value-agnostic; c11_ref covers up to 8 one-digit values)',
                'random longer strings', '13-digit texts whose payload needs more than 63 bits (only panic-freedom, C05)'],
}


SEG_FUNCS = ['decoder::decode_regular (body of the per-segment loop, lifted from /repo/src/decoder.rs at run time)',
             'vlq::parse_vlq_segment_into']
SEG_ASSUME = [
    'L1: the loop header `for (line_index, segment) in line.split(\',\').enumerate()` is replaced by the harness, which '
    'supplies an arbitrary segment text (no \',\' or \';\'), line_index < 10, any dst_line, any previous state '
    '(dst_col, src_id, src_line, src_col, name_id: any u32), any array lengths < 2^32 (sources/names stand-ins expose len() only)',
    'the per-line range bit vector is a mock exposing get(i) (bitvec code is outside this harness)',
    'S1 (Vec::push never reallocates; capacity assertion)',
]
_SEG_UNCOV = {
    1: ['negative source delta', '4-field range token', 'past 2^32', 'driven negative', 'name index past'],
    2: ['negative source delta', '4-field range token', 'past 2^32', 'driven negative', 'name index past', 'well formed 1-field'],
    3: ['negative source delta', '4-field range token', 'past 2^32', 'driven negative', 'name index past'],
    4: ['negative source delta', 'name index past'],
    14: ['well formed 1-field'],
}


def seg_harnesses(quick_lens, thorough_lens):
    out = []
    for n in quick_lens + thorough_lens:
        out.append(H('c02_seg_len%d' % n, 'decoder_seg', 'quick' if n in quick_lens else 'thorough', 900 if n < 12 else 1500, 10,
                     'every segment text of exactly %d ASCII bytes (any number/size of VLQ fields, foreign bytes included) x any '
                     'previous decoder state x any array lengths x any line_index < 10' % n,
                     allow_uncovered=_SEG_UNCOV.get(n)))
    return out


def line_harnesses(quick_lens, thorough_lens):
    out = []
    for n in quick_lens + thorough_lens:
        out.append(H('c02_line_n%d' % n, 'decoder_line', 'quick' if n in quick_lens else 'thorough',
                     {1: 1500, 2: 3000, 3: 7200}[n], {1: 12, 2: 16, 3: 24}[n],
                     'lifted body of the per-line loop of decode_regular (real line.split(\',\').enumerate(), column reset, empty-segment '
                     'skip): every line of exactly %d bytes over {\',\', single-digit VLQ}, any column left by the previous line, any '
                     'line number, optional 1-digit range-mapping entry (decode_rmi mocked)' % n,
                     nocover=(n == 1), allow_uncovered=['two tokens on the line'] if n == 2 else None))
    return out


PROPS['C02'] = {
    'title': 'Decoding follows the Source Map v3 wire format',
    'functions': SEG_FUNCS + ['decoder::decode_common', 'decoder::decode_index (no sections)', 'hermes::decode_hermes (no function maps)',
                              'decoder::decode_regular (whole, on an empty mappings string)'],
    'harnesses': [H('c02_seg_empty', 'decoder_seg', 'quick', 600, 8, 'the empty segment, any state', nocover=True)]
                 + seg_harnesses([1, 4, 5, 8, 11], [2, 3, 6, 7, 10, 14]) + [
        H('c02_dispatch_%s' % k, 'decoder', 'quick', 900, 8,
          'decode_common on a RawSourceMap value with empty mappings and the key combination "%s" (concrete document: a unit '
          'test executed inside CBMC; symbolic key presence makes the recursive drop glue of RawSourceMap explode)' % k, nocover=True)
        for k in ('regular', 'index', 'hermes', 'both')
    ] + [
        H('c02_debugid', 'decoder', 'quick', 900, 8,
          'decode_regular on an empty document with symbolic presence and value of debug_id and debugId'),
    ] + line_harnesses([1, 2], [3]) + [
        H('c02_source_root_n%d' % n, 'types', 'quick', 600, 8,
          'SourceMap::prefix_source (behind set_source_root / get_source) for every ASCII source name of exactly %d bytes and the root "r": '
          'kept as is exactly when absolute (/, http:, https:); format! stubbed, so the joined text is not observed' % n,
          allow_uncovered=['https url', 'relative name beginning with http'] if n < 6 else None)
        for n in (1, 5, 6, 8)
    ],
    'assumptions': SEG_ASSUME,
    'trusted': [S1, 'reference VLQ reader of h_vlq.rs'],
    'outside': ['the outermost loop header mappings.split(\';\').zip(rangeMappings...).enumerate(): that the generated line is the number of '
                'preceding \';\' and that each line is paired with its own rangeMappings entry (lifting the whole nest timed out at 60 min / ran out of 20 GB even for 2-byte documents)',
                'lines longer than 3 bytes in the line-level harness; multi-field segments there (they are decided by the segment-level harnesses)',
                'everything decided by serde_json (keys, types, null sources, numeric names, junk header + JSON)',
                'the text produced by sourceRoot joining (string formatting; only which sources are joined is decided)', 'segments longer than 14 bytes',
                'decode_index with sections (sorting of sections by offset): symex did not finish in 40 min (recursive drop glue of RawSection)'],
}

PROPS['C06'] = {
    'title': 'Malformed mappings are rejected, never silently mis-decoded',
    'functions': SEG_FUNCS,
    'harnesses': [
        H('c06_vlq_len%d' % n, 'vlq', 'quick' if n in (1, 2, 5, 8, 14) else 'thorough', 900, 8,
          'every ASCII string of exactly %d bytes: foreign byte / unterminated / empty / >13 digits => Err, else values = reference' % n)
        for n in (1, 2, 3, 5, 8, 13, 14)
    ] + [
        H('c06_vlq_utf8_len5', 'vlq', 'quick', 600, 8,
          '5-byte text with one valid 2-byte UTF-8 sequence (bytes >= 0x80) at any offset, other bytes alphabet digits'),
    ] + seg_harnesses([2, 3, 5, 8, 11], [1, 4, 6, 7, 10, 14]),
    'assumptions': SEG_ASSUME + [S1],
    'trusted': [S1, 'reference VLQ reader of h_vlq.rs'],
    'outside': ['that every segment of a document reaches the lifted body (the split loop headers)',
                'rejection of malformed rangeMappings strings', 'malformed documents at the JSON level'],
}

PROPS['C04'] = {
    'title': 'Token lookup returns the closest preceding mapping; tokens are always ordered',
    'functions': ['utils::greatest_lower_bound', 'types::SourceMap::lookup_token', 'types::SourceMap::new',
                  'types::SourceMap::get_token', 'types::SourceMap::tokens / TokenIter::next', 'types::SourceMap::get_token_count',
                  'builder::SourceMapBuilder::add_raw', 'builder::SourceMapBuilder::into_sourcemap'],
    'harnesses': [
        H('c04_glb_n%d' % n, 'utils', 'quick' if (n <= 6 or n == 12) else 'thorough', 600, 8,
          'every sorted slice of exactly %d keys (u32,u32) x every query key' % n, nocover=(n == 0),
          allow_uncovered=['duplicate', 'after the last key'] if n == 1 else None)
        for n in (0, 1, 2, 3, 4, 5, 6, 7, 8, 12)
    ] + [
        H('c04_lookup_n%d' % n, 'types', 'quick' if n <= 4 else 'thorough', 900, 8,
          'every sorted map of exactly %d tokens (full u32 fields, no range tokens) x every (line, col) incl. u32::MAX' % n,
          nocover=(n == 0), allow_uncovered=['duplicates', 'later line'] if n == 1 else None)
        for n in (0, 1, 2, 3, 4, 5, 6, 8)
    ] + [
        H('c04_new_sorted_n%d' % n, 'types', 'quick' if n <= 4 else 'thorough', 900, 8,
          'SourceMap::new on every sequence of exactly %d arbitrary tokens (real std sort)' % n, nocover=(n < 2))
        for n in (0, 1, 2, 3, 4, 5)
    ] + [
        H('c04_builder_sorted_n%d' % n, 'types', 'quick', 900, 8,
          'SourceMapBuilder: %d add_raw calls in arbitrary order, then into_sourcemap' % n, nocover=(n < 2))
        for n in (0, 1, 2, 3)
    ],
    'assumptions': ['lookup harnesses build the map by struct literal and assume the tokens sorted (the invariant the '
                    'c04_new_sorted / c04_builder_sorted harnesses show every constructor establishes)'],
    'trusted': [],
    'outside': ['executing rewrite / flatten themselves (string-keyed hash-map interning); they end in the same into_sourcemap',
                'maps with more than 8 tokens', 'adjust_mappings ordering is asserted in the C10 harnesses'],
}

PROPS['C07'] = {
    'title': 'Range mappings survive serialisation and shift lookups inside the range',
    'functions': ['types::SourceMap::lookup_token', 'types::Token::get_src_col', SEG_FUNCS[0], 'decoder::decode_rmi',
                  'encoder::serialize_range_mappings (per-token loop body, lifted)', 'encoder::encode_rmi (thorough tier)'],
    'harnesses': [
        H('c07_lookup_n%d' % n, 'types', 'quick' if n <= 4 else 'thorough', 900, 8,
          'every sorted map of exactly %d tokens with arbitrary range flags x every (line, col)' % n)
        for n in (1, 2, 3, 4, 5)
    ] + seg_harnesses([4, 5, 8], []) + [
        H('c07_rmi_decode_len1', 'decoder', 'quick', 900, 10, 'decode_rmi (real bitvec code) on every 1-character ASCII string: bit layout, foreign characters refused'),
        H('c07_rmi_decode_len2', 'decoder', 'quick', 1200, 12, 'decode_rmi on every 2-character ASCII string'),
    ] + line_harnesses([1], [2, 3]) + [
        H('c07_rmi_ser_n%d' % n, 'encoder_rmi', 'quick', 900, 10,
          'lifted per-token body of serialize_range_mappings with recording mocks: %s then exactly %d tokens on lines 0..3 '
          '(non-decreasing), arbitrary range flags' % ('0..40 non-range tokens on line 0' if n < 4 else 'no leading tokens', n),
          allow_uncovered={1: ['two range tokens on one line', 'empty line after'], 4: ['index >= 16']}.get(n))
        for n in (1, 2, 3, 4)
    ] + [
        H('c07_rmi_encode_n1', 'encoder', 'quick', 1200, 12, 'real encode_rmi (bitvec) on every 1-byte bit field: digit k/6 bit k%6, trailing zero digits trimmed'),
        H('c07_rmi_encode_n2', 'encoder', 'thorough', 1800, 14, 'real encode_rmi on every 2-byte bit field'),
        H('c07_rmi_ser_idle', 'encoder_rmi', 'quick', 900, 10,
          'lifted body from an arbitrary writer state: a non-range token on the current line changes nothing'),
    ],
    'assumptions': ['struct-literal maps, tokens assumed sorted (C04)'] + SEG_ASSUME + [
        'c07_rmi_ser_*: L1 lifting of the per-token body of serialize_range_mappings; its prologue (initial values) and epilogue '
        '(flush when had_rmi) are written out in the harness; token / rmi_data / buf are recording mocks, encode_rmi is a recorder '
        '(the real one is decided by c07_rmi_encode_n1/_n2); the mock bit field panics on set() past 8*len like bitvec'],
    'trusted': [],
    'outside': ['the loop header, prologue and epilogue of serialize_range_mappings (harness-written copies)',
                'bit fields wider than 64 flags per line; more than 4 tokens after the leading run; lines beyond 3',
                'the pairing of mappings lines with rangeMappings entries in decode_regular (outer loop header)'],
}

PROPS['C05'] = {
    'title': 'Untrusted bytes never crash the library',
    'functions': ['vlq::parse_vlq_segment_into', SEG_FUNCS[0], 'types::SourceMap::lookup_token', 'types::Token accessors',
                  'types::SourceMap::get_source/get_name/get_source_contents/get_source_view/get_token',
                  'types::SourceMapIndex::lookup_token/get_section'],
    'harnesses': [
        H('c05_vlq_any14', 'vlq', 'quick', 900, 8, 'any 0..14 bytes < 0x80 through parse_vlq_segment_into'),
        H('c06_vlq_utf8_len5', 'vlq', 'quick', 600, 8, '5-byte text with a 2-byte UTF-8 sequence at any offset'),
        H('c05_lookup_any', 'types', 'quick', 900, 8,
          'sorted 3-token map, arbitrary flags and (dangling) ids, 1 source/name/content; any lookup position; every accessor; any index'),
        H('c05_index_any', 'types', 'quick', 1200, 10,
          '2 sections with non-decreasing (also equal) offsets, each with or without a 1-token map, any position, any section index'),
        H('c05_flatten_arith', 'types_flat', 'quick', 900, 10,
          'lifted per-token body of flatten, any token, any offsets (also overflowing ones): returns without panic, never a wrapped position'),
        H('c14_scope_n2', 'hermes', 'quick', 900, 10, 'Hermes scope lookup: any token (original line up to u32::MAX), 2 scope entries'),
        H('c14_bytecode', 'hermes', 'quick', 1200, 10, 'Hermes bytecode-offset lookup, any offset'),
    ] + seg_harnesses([14, 8], [11]),
    'assumptions': ['post-parse stage only: inputs are the values serde_json would hand to the library, not bytes'] + SEG_ASSUME,
    'trusted': [S1],
    'outside': ['serde_json / base64 / url parsing of arbitrary bytes', 'hangs and allocation proportionality',
                'Debug/Display formatting', 'function-name resolution (C17 n/a)', 'rewrite in all forms (hash-map interning)',
                'serialisation to JSON text and re-decoding'],
}

PROPS['C08'] = {
    'title': 'Index maps: section lookup and flattening describe the same mapping',
    'functions': ['types::SourceMapIndex::lookup_token', 'utils::greatest_lower_bound', 'types::SourceMap::lookup_token',
                  'types::SourceMapIndex::flatten (per-token body, lifted)', 'decoder::decode_index (section-ordering statement, lifted)',
                  'types::SourceMapSection::new/get_offset'],
    'harnesses': [
        H('c08_lookup_2x1', 'types', 'quick', 1500, 10, '2 sections (strictly increasing offsets, any u32) x 1 token each, any position'),
        H('c08_lookup_1x2', 'types', 'quick', 1500, 10, '1 section (any offset) x 2 sorted tokens, any position'),
        H('c08_lookup_nomap', 'types', 'quick', 1500, 10, '2 sections, exactly one without a map, any position'),
        H('c08_lookup_nested', 'types', 'quick', 1500, 10,
          'an index section holding another index map (any two offsets) with 1 token, any position: offsets compose'),
        H('c08_lookup_hermes_section', 'hermes', 'thorough', 1500, 10, 'a Hermes map as the only section of an index map, any offset, any position'),
        H('c08_flat_step', 'types_flat', 'quick', 900, 10,
          'lifted per-token body of flatten with a recording mock builder: any token of a section map (2 sources: #0 with '
          'contents, #1 without and ignored; 1 name; ids may dangle), any offsets whose sums fit u32, any mock answers'),
        H('c08_load_sorted_n2', 'decoder_idx', 'quick', 900, 8, 'the lifted statement of decode_index that orders sections, real std sort, every vector of exactly 2 map-less sections (any u32 offsets)'),
        H('c08_load_sorted_n3', 'decoder_idx', 'quick', 900, 8, 'same, exactly 3 sections'),
        H('c08_load_sorted_n4', 'decoder_idx', 'quick', 900, 8, 'same, exactly 4 sections'),
        H('c08_agree', 'types_flat', 'quick', 1800, 10,
          '2 sections x 1 token, strictly increasing offsets, token of section 0 before section 1: flattened position (lifted body) '
          'fed to the real lookup_token'),
    ],
    'assumptions': ['sections built through SourceMapSection::new / SourceMapIndex::new with strictly increasing offsets',
                    'L1: the loop headers of flatten (`for section in self.sections()`, `for token in map.tokens()`) and the final '
                    'into_sourcemap are replaced by the harness; `builder` is a recording mock with the same method signatures',
                    'S4: alloc::fmt::format stubbed (error message text is not the subject)',
                    'c08_load_sorted_*: only the statement `sections.sort…(…);` of decode_index is lifted (regex lift); the construction '
                    'of the sections from the raw document around it is not executed'],
    'trusted': ['S4'],
    'outside': ['that flatten visits every section and token once and recurses into nested indexes (loop headers)',
                'an unresolved section is an error (whole-flatten run timed out at 25 min: SourceMapBuilder hash maps)',
                'de-duplication of source names and names across sections (interning)', 'ordering of the result (into_sourcemap, C04)',
                'Hermes and nested-index sections'],
}

PROPS['C03'] = {
    'title': 'Encoder output is valid v3 that any conforming reader decodes identically',
    'functions': ['encoder::serialize_mappings', 'encoder::encode_vlq_diff', 'vlq::encode_vlq', 'types::TokenIter',
                  'types::Token accessors', '<SourceMap as Encodable>::as_raw_sourcemap', 'encoder::serialize_range_mappings (no range tokens)'],
    'harnesses': [
        H('c03_diff_full', 'encoder', 'quick', 600, 8, 'encode_vlq_diff(a, b) for every pair of u32'),
        H('c03_struct_n1', 'encoder', 'quick', 900, 10, '1 well-formed token, full 32-bit fields, lines 0..2; encode_vlq_diff replaced by a recorder', nocover=False,
          allow_uncovered=['consecutive duplicate', 'empty line between', 'negative original-column', '1-field then', 'column u32::MAX']),
        H('c03_struct_n2', 'encoder', 'quick', 1500, 12, '2 sorted well-formed tokens, full 32-bit fields, lines 0..2; recorder'),
        H('c03_struct_n3', 'encoder', 'thorough', 3000, 14, '3 sorted well-formed tokens, full 32-bit fields, lines 0..2; recorder'),
        H('c03_rawmap', 'encoder', 'quick', 1200, 12,
          'SourceMap::as_raw_sourcemap on a map with 2 sources, 1 name, no tokens and symbolic presence of file / source root / debug id / '
          'ignore-list entry / contents'),
        H('c03_ser_n1_small', 'encoder', 'quick', 900, 10, '1 token, fields < 16, real VLQ writer, independent v3 reader',
          allow_uncovered=['consecutive duplicate', 'empty line between', 'negative original-column', '1-field then']),
        H('c03_ser_n2_small', 'encoder', 'quick', 1500, 12, '2 tokens, fields < 16, lines 0..2, real VLQ writer, independent v3 reader'),
        H('c03_ser_n3_small', 'encoder', 'thorough', 3000, 14, '3 tokens, fields < 16, lines 0..2'),
        H('c03_ser_n2_mid', 'encoder', 'thorough', 4500, 14, '2 tokens, fields < 2^10'),
        H('c03_ser_n1_full', 'encoder', 'thorough', 3000, 14, '1 token, full 32-bit fields',
          allow_uncovered=['consecutive duplicate', 'empty line between', 'negative original-column', '1-field then']),
    ],
    'assumptions': ['well-formed tokens as in C01 (no source and no name, or in-range source of 2 and optional in-range name of 2)',
                    'generated line <= 2 (the format spends one byte per line)', S1,
                    'c03_struct_*: encoder::encode_vlq_diff replaced by a recorder stub; c03_diff_full decides the replaced function'],
    'trusted': [S1],
    'outside': ['the JSON text itself (serde)', 'to_data_url', 'more than 3 tokens', 'source/name arrays longer than 2',
                'SourceMapIndex::as_raw_sourcemap (section offset objects): symex does not finish in 40 min (recursive Encodable/drop glue)'],
}

SV_STUBS = 'S1 (Vec::new/Vec::push fixed capacity 48, no reallocation), S3 (memchr_aligned byte loop)'

PROPS['C15'] = {
    'title': 'SourceView lines and UTF-16 slices match the text exactly, in any access order',
    'functions': ['sourceview::SourceView::new', 'SourceView::get_line', 'SourceView::line_count', 'SourceView::lines / Lines::next',
                  'SourceView::get_line_slice', 'SourceView::source'],
    'harnesses': [
        H('c15_line_n%d' % n, 'sourceview', 'quick' if n <= 4 else 'thorough', 1200, 10,
          'every text of exactly %d bytes over {a, b, \\n, \\r}, any line index (u32), then line_count' % n, nocover=(n < 2))
        for n in (0, 1, 2, 3, 4, 5, 6, 7)
    ] + [
        H('c15_order_n3', 'sourceview', 'quick', 1800, 12, 'every 3-byte text, any 3 successive requests (get_line(any) or line_count) on one view', nocover=True),
        H('c15_order_n4', 'sourceview', 'thorough', 2400, 12, 'every 4-byte text, any 3 successive requests', nocover=True),
        H('c15_order_n5', 'sourceview', 'thorough', 3600, 14, 'every 5-byte text, any 3 successive requests', nocover=True),
        H('c15_lines_iter_n1', 'sourceview', 'quick', 1200, 10, 'every 1-byte text: lines() after an optional earlier request'),
        H('c15_lines_iter_n2', 'sourceview', 'quick', 2400, 12, 'every 2-byte text: lines() after an optional earlier request'),
        H('c15_lines_iter_n3', 'sourceview', 'thorough', 2400, 12, 'every 3-byte text: lines() after an optional earlier request'),
        H('c15_lines_iter_n4', 'sourceview', 'thorough', 3600, 14, 'every 4-byte text: lines() after an optional earlier request'),
        H('c15_slice_ascii_n4', 'sourceview', 'quick', 900, 10, 'any 4 lower-case letters, any col, span < 2^31'),
        H('c15_slice_big', 'sourceview', 'quick', 900, 10, 'line "xy", any col and span (full u32)'),
    ] + [
        H('c15_slice_wide_%s' % k, 'sourceview', 'quick' if k in ('200', '020') else 'thorough', 1800, 12,
          'line of 3 chars of kinds %s (0 = a, 1 = e-acute 2 bytes/1 unit, 2 = U+1F44C 4 bytes/2 units), any col, span < 8' % k,
          allow_uncovered=None if k[0] == '2' else ['starting inside the leading surrogate pair'])
        for k in ('200', '020', '002', '120', '212', '222', '101', '021')
    ],
    'assumptions': [SV_STUBS, 'texts over a 4-letter alphabet {a, b, LF, CR} (all terminator placements; letters stand for any non-terminator byte)'],
    'trusted': [SV_STUBS],
    'outside': ['texts longer than 7 bytes', 'multi-byte characters inside get_line (it works on bytes and only looks for LF/CR)',
                'more than 3 successive requests', 'slices of lines other than line 0'],
}

PROPS['C16'] = {
    'title': 'A SourceView shared between threads answers as if accessed by one',
    'technique': 'bounded model checking (Kani 0.68 / CBMC 6.11 / CaDiCaL) of a sequentialised interleaving encoding: at the '
                 'sourcemap_verif yield points and at every Mutex::lock (stubbed) the solver may run complete calls of other threads',
    'functions': ['sourceview::SourceView::get_line (with the sourcemap_verif yield points)', 'SourceView::line_count',
                  'sourceview::verif_hooks::yield_point'],
    'harnesses': [
        H('c16_n%d' % n, 'sourceview', 'quick' if n <= 2 else 'thorough', 1800, 12,
          'every %d-byte text over {a, b, LF, CR}; optional earlier call; outer get_line(any) with a solver-chosen complete nested '
          'get_line(any) at each yield point where the lock is free; later get_line(any) + line_count' % n,
          cfg='sourcemap_verif')
        for n in (0, 1, 2, 3, 4)
    ] + [
        H('c16_count_n%d' % n, 'sourceview', 'quick' if n <= 2 else 'thorough', 1800, 12,
          'same with line_count() as the outer call, %d-byte texts' % n, cfg='sourcemap_verif')
        for n in (2, 3)
    ] + [
        H('c16_lock_n2', 'sourceview', 'quick', 3600, 28,
          'hook-independent variant: std::sync::Mutex::lock replaced (S7) by "let other threads run, then try_lock": every lock '
          'acquisition of get_line/line_count is a yield point; every 2-byte text, outer get_line(any)', cfg='sourcemap_verif'),
        H('c16_lock_count_n2', 'sourceview', 'thorough', 2400, 14, 'same with line_count() as the outer call', cfg='sourcemap_verif'),
        H('c16_lock_n1', 'sourceview', 'quick', 3600, 24, 'same, 1-byte texts', cfg='sourcemap_verif'),
    ] + [
        H('c16_depth2_n%d' % n, 'sourceview', 'thorough', 3600, 14,
          'nested calls may themselves be interrupted once (depth 2), %d-byte texts' % n, cfg='sourcemap_verif')
        for n in (2, 3)
    ],
    'assumptions': [
        'sequentialisation argument (DESIGN.md C16): all mutation of the view happens under its mutex, so between the atomic blocks '
        'of one call other threads can only run complete atomic blocks; their cumulative effect equals that of complete nested calls',
        'hook commits 210a631, 881b99b (--cfg sourcemap_verif): yield points immediately before the lock is taken, after the cache probe and after the finished check',
        SV_STUBS,
        'S7 (c16_lock_* only): std::sync::Mutex::lock -> harness callback + try_lock; a WouldBlock there is reported as a self-deadlock'],
    'trusted': [SV_STUBS, 'std::sync::Mutex as modelled by Kani (single-threaded lock/try_lock)'],
    'outside': ['memory-model effects of Ordering::Relaxed (the argument uses only the mutex happens-before)', 'real-thread stress',
                'windows that end without another lock acquisition and carry no yield point (a lock released early followed by unlocked reads and a return '
                'is only seen through the source yield points 1 and 2)',
                'interleavings inside a critical section (excluded by the mutex)', 'deadlock freedom beyond: no call blocks on a lock it holds'],
}

PROPS['C14'] = {
    'title': 'Hermes maps resolve tokens to the enclosing function their metadata describes',
    'functions': ['hermes::SourceMapHermes::get_scope_for_token', 'hermes::SourceMapHermes::get_original_function_name',
                  'types::DecodedMap::get_original_function_name (Hermes arm)', 'utils::greatest_lower_bound',
                  'hermes::decode_hermes (body of the per-mapping loop of the function-map decoder, lifted at run time)'],
    'harnesses': [
        H('c14_scope_n%d' % n, 'hermes', 'quick' if n <= 3 else 'thorough', 900, 10,
          'struct-literal Hermes map: 1 token (any ids/positions), 1-2 function-map slots (slot 0 absent/empty), %d sorted scope '
          'entries (any u32 fields), 2 names' % n, nocover=(n == 0),
          allow_uncovered=['first entry answers', 'later line than', 'name index out of range'] if n == 1 else None)
        for n in (0, 1, 2, 3, 4, 5)
    ] + [
        H('c14_bytecode', 'hermes', 'quick', 1200, 10, '2 sorted scope entries, 1 token, any bytecode offset; DecodedMap with any line'),
    ] + [
        H('c14_fm_len%d' % n, 'hermes_fm', 'quick' if n <= 5 else 'thorough', 900, 10,
          'lifted function-map mapping body: every mapping text of exactly %d ASCII bytes x any previous (column, name_index, line)' % n,
          allow_uncovered=['three fields', 'negative name-index'] if n == 1 else (['three fields'] if n == 2 else None))
        for n in (1, 2, 3, 5, 9)
    ] + [
        H('c14_fm_line_n%d' % n, 'hermes_line', 'thorough', {1: 1500, 2: 3600, 3: 7200}[n], {1: 12, 2: 16, 3: 30}[n],
          'lifted body of the per-line loop of the function-map decoder (real split(\',\'), per-line column reset): every line of '
          'exactly %d bytes over {\',\', single-digit VLQ}, any previous name index and line' % n,
          nocover=(n == 1), allow_uncovered=['two mappings on the line'] if n == 2 else None)
        for n in (1, 2, 3)
    ],
    'assumptions': ['scope entries sorted by (line, column) as decode_hermes produces them for well-formed function maps',
                    'L1: loop headers of the function-map decoder (split(\';\'), split(\',\'), per-line column reset, initial line 1) are the harness\'s',
                    'S1 (Vec::push)'],
    'trusted': [S1, 'reference VLQ reader'],
    'outside': ['the outermost loop of the function-map decoder (split(\';\'), skipping of empty lines) and its initial line value 1; the per-line column '
                'reset is covered in the thorough tier only (c14_fm_line_*)',
                'that a function map failing to parse leaves the whole map decodable end to end (needs decode_regular whole)',
                'round trip through JSON', 'rewrite of Hermes maps'],
}

_C20_UNCOV = {
    0: None, 4: None,
    11: ['present module', 'empty table slot', 'corrupt entry', 'startup code present', 'near 2^32', 'recognised', 'wrong magic'],
    12: ['present module', 'empty table slot', 'corrupt entry', 'startup code present', 'near 2^32'],
    20: ['present module', 'empty table slot', 'corrupt entry', 'startup code present'],
}

PROPS['C20'] = {
    'title': 'Indexed RAM bundles are parsed exactly and malformed ones are refused',
    'functions': ['ram_bundle::is_ram_bundle_slice', 'ram_bundle::RamBundle::parse_indexed_from_slice', 'IndexedRamBundle::parse',
                  'RamBundle::module_count', 'RamBundle::startup_code', 'RamBundle::get_module', 'RamBundle::iter_modules',
                  'RamBundleModuleIter::next', 'scroll::Pread (derived readers, real code)'],
    'harnesses': [
        H('c20_any_n%d' % n, 'ram_bundle', 'quick' if n in (0, 11, 12, 28, 36) else 'thorough', 1500, 10,
          'EVERY byte string of exactly %d bytes (well-formed bundles and all corruptions alike) x any module id (usize): recognition, '
          'parse, module_count, get_module and startup_code equal the format specification; returned slices lie in the buffer' % n,
          nocover=(n in (0, 4)), allow_uncovered=_C20_UNCOV.get(n))
        for n in (0, 4, 11, 12, 20, 28, 36, 44)
    ] + [
        H('c20_iter_m2', 'ram_bundle', 'quick', 1800, 12, '36-byte buffer, valid magic, module count 2, all other bytes arbitrary: iter_modules vs specification'),
        H('c20_iter_m3', 'ram_bundle', 'thorough', 2400, 12, '44-byte buffer, valid magic, module count 3, all other bytes arbitrary: iter_modules vs specification'),
    ],
    'assumptions': ['the specification oracle in h_ram_bundle.rs (u64 arithmetic over the buffer) is the reading of the indexed RAM '
                    'bundle format: LE header (magic, count, startup size), 8-byte table entries (offset, length) relative to the end '
                    'of the table, (0,0) = empty slot, length includes a trailing NUL',
                    'a zero-length startup code / zero-length data exactly at the end of the buffer is refused by scroll (offset >= len); the '
                    'property only speaks of non-empty startup code'],
    'trusted': [],
    'outside': ['buffers longer than 44 bytes (3 table entries + 8 body bytes)', 'file-based (unbundle) bundles', 'split_ram_bundle',
                'parse_indexed_from_vec / from_path (same parser behind an owned Cow)'],
}

C10_STUBS = 'S1 (Vec::new capacity 8 / Vec::push without reallocation), S2 (core::slice::sort::unstable::sort -> insertion sort)'

PROPS['C10'] = {
    'title': 'adjust_mappings composes the two maps interval by interval',
    'functions': ['types::SourceMap::adjust_mappings (incl. create_ranges)'],
    'harnesses': [
        H('c10_1x1_full30', 'types', 'quick', 1500, 12, '1 original x 1 adjustment token, all fields < 2^30',
          allow_uncovered=['every pair overlaps', 'duplicated', 'out of order']),
        H('c10_2x0', 'types', 'quick', 600, 8, '2 original tokens, empty adjustment map', nocover=True),
        H('c10_0x2', 'types', 'quick', 600, 8, 'empty original map, 2 adjustment tokens', nocover=True),
        H('c10_2x1_full30', 'types', 'quick', 2400, 14, '2 original x 1 adjustment token, any order, duplicates allowed, fields < 2^30',
          allow_uncovered=['duplicated adjustment', 'out of order']),
        H('c10_1x2_full30', 'types', 'quick', 2400, 14, '1 original x 2 adjustment tokens, any order, duplicates allowed, fields < 2^30',
          allow_uncovered=['duplicated original']),
        H('c10_2x1_g2x8', 'types', 'thorough', 2400, 14, '2 x 1 on a 2-line x 8-column grid', allow_uncovered=['duplicated adjustment', 'out of order']),
        H('c10_1x2_g2x8', 'types', 'thorough', 2400, 14, '1 x 2 on a 2-line x 8-column grid', allow_uncovered=['duplicated original']),
        H('c10_2x2_g2x8', 'types', 'thorough', 7200, 28, '2 x 2 on a 2-line x 8-column grid'),
    ],
    'assumptions': ['fields < 2^30 (the implementation computes displacements in i32; beyond that the casts wrap - outside the stated grids)',
                    'which of two tokens sharing a start carries the stretch is unspecified (unstable sort): the oracle accepts either',
                    C10_STUBS],
    'trusted': [C10_STUBS],
    'outside': ['more than 3 tokens in total in the quick tier (2x2 thorough)', 'lines/columns >= 2^30', 'contents/sources beyond "untouched" struct fields'],
}

_C12_SMALL = ['header ends with LF', 'bare CR', 'no header', 'short read', 'three inner reads', 'CRLF header']

PROPS['C12'] = {
    'title': 'Reader, slice and data-URL decoding agree, however the stream is chunked',
    'technique': 'bounded model checking (Kani 0.68 / CBMC 6.11 / CaDiCaL): reader vs slice header stripping on symbolic bytes; the '
                 'chunking of the stream is a solver variable (N <= 3) or enumerated per composition (N = 3..6)',
    'functions': ['decoder::StripHeaderReader::read', 'decoder::StripHeaderReader::strip_head_read', 'decoder::strip_junk_header',
                  'decoder::is_junk_json'],
    'harnesses': [
        H('c12_hdr_n0_b2', 'decoder', 'quick', 600, 8, 'empty input, caller buffer 2', nocover=True),
        H('c12_hdr_n1_b2', 'decoder', 'quick', 1200, 12, 'every 1-byte input, caller buffer 2, every chunking', nocover=True),
        H('c12_hdr_n2_b2', 'decoder', 'quick', 2400, 14, 'every 2-byte input, caller buffer 2, every chunking of the inner stream into reads of 1..2 bytes', nocover=True),
        H('c12_hdr_n3_b2', 'decoder', 'thorough', 7200, 30, 'every 3-byte input, caller buffer 2, every chunking into inner reads of 1..2 bytes'),
        H('c12_hdr_n3_b3', 'decoder', 'thorough', 7200, 30, 'every 3-byte input, caller buffer 3, every chunking into inner reads of 1..3 bytes'),
    ] + [
        H('c12_sched_n%d_%s' % (n, sch), 'decoder', tier, 2400, 14,
          'every %d-byte input, inner reader delivering the chunk sizes %s (chunkings enumerated: one instance per composition; '
          'bytes symbolic)' % (n, '+'.join(sch)))
        for n, sch, tier in [
            (3, '111', 'quick'), (3, '12', 'quick'), (3, '21', 'quick'), (3, '3', 'quick'),
            (4, '22', 'quick'), (4, '13', 'quick'), (4, '31', 'quick'), (4, '4', 'quick'),
            (5, '5', 'quick'), (6, '6', 'quick'),
            (4, '1111', 'thorough'), (4, '112', 'thorough'), (4, '121', 'thorough'), (4, '211', 'thorough'),
            (5, '23', 'thorough'), (5, '32', 'thorough'),
        ]
    ],
    'assumptions': ['the JSON stage behind both paths is the same function (serde_json + decode_common), so agreement of the byte streams handed '
                    'to it is what can differ; the slice path keeps the LF that ends the header (JSON whitespace), the reader drops it',
                    'inner reader contract: returns 1..=min(remaining, buffer) bytes, 0 only at end of input',
                    'c12_hdr_*: the chunking is a solver variable; c12_sched_*: chunkings are enumerated (every composition of 3 and of 4), '
                    'because a symbolic chunking makes every loop bound symbolic (N = 3 then needs 25 min and 30 GB)'],
    'trusted': [],
    'outside': ['JSON decoding after the header', 'is_sourcemap* detection predicates', 'data URLs (base64)',
                'inputs longer than 4 bytes under multi-read chunkings (5/6 bytes: single read and two 2+3/3+2 reads only)',
                'caller buffers smaller than the chunk in the enumerated-chunking harnesses (covered for N <= 3 by the c12_hdr_* harnesses)'],
}
